#!/bin/sh
# usage: tools/run_on_patch.sh <patch.diff|-R:<commit>|rev:<commit>> <Cnn> [check args...]
# Runs a check against a scratch worktree of /repo with the patch applied (VERIF_REPO), then removes it.
set -e
PATCH="$1"; shift
D=$(mktemp -d /dev/shm/wpull-mut.XXXXXX)
rmdir "$D"
case "$PATCH" in
  rev:*) git -C /repo worktree add -q --detach "$D" "${PATCH#rev:}" ;;
  *) git -C /repo worktree add -q --detach "$D" HEAD; git -C "$D" apply "$PATCH" ;;
esac
set +e
VERIF_REPO="$D" /verif/check "$@" --no-evidence
RC=$?
git -C /repo worktree remove --force "$D"
exit $RC
