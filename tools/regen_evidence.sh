#!/bin/sh
# usage: tools/regen_evidence.sh  - runs every claimed quick check with its default budget against /repo and rewrites evidence/<id>.json
cd "$(dirname "$0")/.." || exit 2
RC=0
for p in C01 C02 C03 C04 C05 C06 C07 C08 C09 C12 C13 C14 C16 C17 C18 C19 C20; do
  OUT=$(./check $p --tier quick 2>&1); E=$?
  echo "$p exit=$E $(echo "$OUT" | grep -E "^$p:" | cut -c1-160)"
  echo "$OUT" | grep -E "^VIOLATION|^HARNESS|^KNOWN" | cut -c1-160
  [ $E -ne 0 ] && RC=1
done
exit $RC
