#!/usr/bin/env python3
"""Generates /verif/MANIFEST.json from the table below (single place to edit)."""
import json
import os

VERIF = os.path.dirname(os.path.dirname(os.path.abspath(__file__)))

ALL = ['C%02d' % i for i in range(1, 21)]

NOT_APPLICABLE = {
    'C10': 'pure function of the input string (URLInfo.parse normalisation): no schedule, clock, I/O, fault or interleaving '
           'for a simulator to vary; deterministic simulation does not apply (DESIGN section 5)',
    'C11': 'pure function of the input string (totality of URL parsing/joining): nothing for simulation to vary (DESIGN section 5)',
    'C15': 'pure function of URL, header value and options (PathNamer.get_filename / Content-Disposition renaming): nothing '
           'for simulation to vary (DESIGN section 5)',
}

# property -> dict(level, text, note, technique, engine, design_ref)
CLAIMED = {
    'C12': dict(
        level='exploration', engine='pool', design_ref='4/C12',
        technique='deterministic simulation: seeded schedules of N clients over the real ConnectionPool on a virtual-time '
                  'asyncio loop with injected connect failures, remote closes and task cancellations; invariants after every '
                  'callback, starvation check at every quiescent instant, end-state check',
        text='Seeded search over client workloads, latencies, set orders and fault/cancellation times against the real '
             'ConnectionPool/HostPool/Connection code. Sharing and over-allocation are checked as invariants after every '
             'event-loop callback; starvation at every instant when nothing is runnable; leaks and bookkeeping after all '
             'clients finished. One variant uses the HTTP proxy pool: plain requests, acquire()/session(), and tunnels whose CONNECT is granted, refused, answered with rubbish, answered late (so that cancellations fall inside it) or closed, with and without TLS inside the tunnel (second use of a kept-alive tunnel). A clean batch is evidence, not proof; tiny configurations saturate their interleaving space.',
        note='Trusted: CPython 3.12 asyncio primitives, the compatibility layer (DESIGN 1), FIFO ready queue. '
             'TCP/DNS/clock are simulated.'),
    'C13': dict(
        level='exploration', engine='pipeline', design_ref='4/C13',
        technique='deterministic simulation: seeded item/latency/exception workloads and controller actions (concurrency '
                  'changes incl. pause, stop via SIGINT wiring) against the real Pipeline/ItemQueue/Application on a '
                  'virtual-time loop; exactly-once/order oracle on the (task,item) log, bounded liveness via deadlock detection',
        text='Seeded search over item counts, per-call latencies (every completion order), concurrency changes including '
             'pause, stop requests at drawn instants and exceptions in any task or source call, against the real '
             'Pipeline/ItemQueue/Producer/Worker and (one variant) Application+PipelineSeries. Order/at-most-once/foreign-item '
             'are checked at every task start; exactly-once, no-work-after-stop, error surfacing and termination over the '
             'history. Hangs are detected exactly (nothing runnable, no timer) rather than by wall-clock.',
        note='Trusted: CPython 3.12 asyncio primitives, compatibility layer, FIFO ready queue. Source and tasks are '
             'instrumented stubs; the queue pop is observed through a PriorityQueue subclass.'),
    'C08': dict(
        level='exploration', engine='http_stream', design_ref='4/C08',
        technique='deterministic simulation: scripted reactive origin server over a simulated transport whose segmentation, '
                  'latency, FIN/RST truncation and surplus bytes are tape-drawn; results of the real HTTP client compared '
                  'with an independent RFC 7230 reference decoder, plus metamorphic re-runs under fixed segmentations',
        text='Seeded search over response scripts (status/method, header spellings, Content-Length / chunked with extensions '
             'and trailers / read-until-close / no-body framings, content codings, surplus bytes, truncation at arbitrary '
             'and grammar-targeted offsets by FIN or RST) and over stream segmentations down to single bytes, on persistent '
             'connections in lock-step. Oracle: (status, fields, body, error) versus refs/rfc7230.py per exchange; truncated '
             'messages must raise; connection reuse after surplus is monitored at the server (as is a body that pauses beyond --session-timeout: error, not a short success), and so is reuse after a response that announced the end of the connection (Connection: close, HTTP/1.0 without keep-alive) with a FIN that arrives late. One variant drives a single Stream object through the whole script.',
        note='Trusted: refs/rfc7230.py for the generated unambiguous messages, zlib, CPython asyncio streams, compat layer. '
             'Only messages for which RFC 7230 gives one answer are generated.'),
    'C19': dict(
        level='exploration', engine='http_stream', design_ref='4/C19',
        technique='deterministic simulation: coded bodies (gzip, zlib-deflate, raw deflate, identity) delivered through the real '
                  'HTTP stream in tape-drawn pieces (transport segmentation and chunk boundaries, forced 1-byte first pieces), '
                  'with truncation/corruption injected inside the coded stream; oracle is zlib one-shot decoding',
        text='Seeded search over payloads, compression settings, framings and segmentations; the pieces reaching the decoder are '
             'produced by the simulated transport. Oracle: body equals one-shot zlib decoding for every segmentation '
             '(absolute and metamorphic); coded streams truncated or corrupted with intact HTTP framing must raise ProtocolError. Identity bodies are judged as well, surplus bytes may follow the last coded body, and one variant drives a single Stream object through the whole script (what a decoder leaves behind must not touch the next body).',
        note='Trusted: zlib one-shot decode as reference. Byte 0 of a gzip stream is never corrupted (documented passthrough of '
             'bodies without gzip magic is not judged).'),
    'C04': dict(
        level='exploration', engine='archive', design_ref='4/C04',
        technique='deterministic simulation: real HTTP client + WARC recorder fetching scripted exchanges concurrently over a '
                  'simulated transport (tape-drawn segmentation, latency, truncation, overrun); the server logs every byte '
                  'received and sent and an independent strict WARC reader compares record blocks with that log',
        text='Seeded search over response formattings, framings, bodies, request kinds (GET/HEAD/POST with body), 1..3 concurrent '
             'fetchers on keep-alive connections and segmentations. Oracle: per completed exchange exactly one request record '
             'whose block equals the bytes the server received and one response/revisit record whose block equals the message '
             'the server sent (surplus excluded), naming the request as concurrent; aborted exchanges have no response record.',
        note='Trusted: refs/warc.py, refs/rfc7230.py (message extent), gzip/zlib. Surplus bytes are only sent so that they arrive in '
             'the same read as body bytes (a separately delivered surplus is C08 known finding K1).'),
    'C05': dict(
        level='exploration', engine='archive', design_ref='4/C05',
        technique='deterministic simulation: same runs as C04 with the recorder configuration drawn (compression, digests, rollover, '
                  'appending phase, log record, extra warcinfo fields, dedup/revisit through the CDX of a previous phase); every '
                  'output file is parsed by a strict independent WARC/1.0 + gzip-member reader and digests are recomputed',
        text='Seeded search over recorder configurations and exchange sequences. Oracle: grammar, Content-Length, CRLF CRLF, one-line '
             'named fields, unique record IDs, WARC-Warcinfo-ID of the file, SHA-1 block digest, SHA-1 payload digest over the '
             'bytes after the header block as present in the block, revisit blocks cut at the header end, one gzip member per record.',
        note='Trusted: refs/warc.py, hashlib, zlib. FTP recorder sessions are exercised by the ftp harness once built, not here.'),
    'C07': dict(
        level='exploration', engine='archive', design_ref='4/C07',
        technique='deterministic simulation: same runs as C04/C05 with cdx on, rollover and appending; each CDX line is checked '
                  'against the byte slice it names, parsed by the independent reader',
        text='Seeded search as C04/C05. Oracle: exactly one CDX line per response record and none without; file[g][V:V+S] is '
             'exactly one record (one gzip member) with that record ID, URL and payload digest; status and MIME type equal '
             'those parsed by the reference from the archived header block (multi-line, > 4 KiB, structured subtypes). A second phase may be a fresh (non-appending) run over the files the first one left: every file it writes to must be started afresh.',
        note='Trusted: refs/warc.py, refs/rfc7230.py header parsing.'),
    'C06': dict(
        level='fault_enumeration', engine='warcfault', design_ref='4/C06',
        technique='deterministic fault injection: per sampled archive+record workload, EVERY file operation of the append (open, '
                  'each raw write below real Python buffering, truncate, close, unlink) is enumerated as an I/O-error position '
                  '(error, error-after-partial-write, short write) and as a kill position (plus torn prefixes of each write); '
                  'kill model cross-checked against real fork+_exit',
        text='Workloads (compression, number and size of earlier records, size/compressibility of the appended record) are sampled; '
             'for each, the fault positions are enumerated completely. I/O-error clause: write_record raised, archive bytes equal '
             'the pre-append bytes exactly, no journal left. Kill clause: archive is the old or the new valid record sequence, or a '
             'journal naming the pre-append length exists and truncation restores the old archive; a new recorder refuses to start '
             'while the journal exists. Drawn histories before the append: numbered files, a roll-over that failed with an I/O error, archive names with glob characters, an empty or dotted base name, the close of a second (appending) run, a fresh (non-appending) start over an existing archive, and a kill while a failed append is being undone.',
        note='Trusted: refs/warc.py; kill = loss of Python-level buffers only (bytes given to raw write() survive), cross-checked '
             'against real kills on a sample each run; one fault per append; failure of the journal unlink itself is waived.'),
    'C14': dict(
        level='exploration', engine='table', design_ref='4/C14',
        technique='deterministic simulation of the storage surface: seeded operation histories (add/check-out/check-in/update/'
                  'release/remove/visits/queries with close+reopen steps interleaved) executed in lock-step against the real '
                  'SQLiteURLTable (on-disk, WAL; half the runs behind URLTableHookWrapper) and a dict-based reference model',
        text='Seeded search over histories of 1..40 operations with batches containing duplicates, arbitrary property values and odd '
             'URL strings. Oracle after every step: return values agree with the model (check_out: one of the candidates / NotFound '
             'iff none; add_many: exactly the new URLs) and the full get_all() state equals the model, also across close+reopen.',
        note='Trusted: refs/table.py, SQLAlchemy/SQLite. Kill-and-reopen belongs to C03, not here. A properties object always names '
             'parent and root URL (as all wpull callers do).'),
    'C17': dict(
        level='exploration', engine='ftp', design_ref='4/C17',
        technique='deterministic simulation: real FTP client against a simulated FTP server (control + passive data connections) '
                  'with tape-drawn URLs/logins containing any percent-encoded byte, reply shapes, error replies, relative timing of '
                  'data EOF and completion reply, data resets, and segmentation of both streams',
        text='Seeded search over URLs and login values (every byte value incl. CR/LF/NUL percent-encoded), single and multi-line '
             'reply shapes, error replies at every step, 226-before-EOF / EOF-before-226 / simultaneous, data connection reset, '
             'missing or negative completion. Oracle: control bytes split at CRLF give exactly one line per issued command with no '
             'CR/LF inside and no unexpected verb; Reply objects equal the reference assembler per connection and across '
             'segmentations; success only after data EOF and a 226 (negative completions may carry a bare CR followed by what looks like a 226, follow a line without a code, or be a 2xx that is no completion); what the session announces to its listeners (end_transfer) is judged like what it returns.',
        note='Trusted: refs/ftp.py. read_reply is observed through a logging subclass; active mode, TLS and REST are not exercised.'),
    'C16': dict(
        level='exploration', engine='web', design_ref='4/C16',
        technique='deterministic simulation: real WebClient/WebSession (redirects, cookies, basic auth) against adaptive simulated '
                  'origins on several hosts/schemes/ports; every request is judged at the server on its raw bytes, per hop',
        text='Seeded search over start URLs (user-info, IDN, IPv4/IPv6 literals, ports, encoded delimiters, spelling noise), redirect '
             'chains over 301/302/303/307/308 across hosts and schemes with absolute/relative Location spellings, Set-Cookie with and '
             'without Domain (incl. foreign domain), 401 challenges, referrers. Oracle per request: one well-formed request line with '
             'the expected target, header lines without bare CR/LF/NUL, exactly one Host equal to the connection\'s host[:port], no '
             'URL-embedded credentials or host-only/foreign cookies on another host; Domain cookies of hosts without a domain (IP literals, single-label names) and the proxy login stay where they belong. One run in twelve is the whole application crawling several hosts with --header / --referer (Host judged per request).',
        note='Trusted: expected targets by construction for a fixed menu of path/query pieces (calibrated once against the code: '
             'space in query is "+"). Option-level credentials are not host-bound and not judged. TLS is a plaintext stub.'),
    'C18': dict(
        level='exploration', engine='bounded', design_ref='4/C18',
        technique='deterministic simulation: adversarial simulated servers (redirect cycles, unbounded chains, mixed codes, missing or '
                  'unparsable Location, perpetual 401/5xx, resets, stalls past the timeout on a virtual clock) against the real '
                  'WebSession visit loop for all redirect limits; request counts from the server log',
        text='Seeded search over adversarial strategies and --max-redirect values. Oracle from the server log: redirect follow-ups '
             'within one visit <= limit, at most one authentication retry in a row per URL, endless redirects end with a protocol '
             'error, the visit terminates (deadlock / budget detection on virtual time). One run in three is crawl level: the whole '
             'application against perpetually failing URLs (5xx, reset, refused, stall, redirect loop) with drawn --tries, '
             '--max-redirect, --retry-connrefused, --waitretry; visits per URL (distinct item try counts seen at the server) <= tries, '
             'no request once the tries are used up, and the crawl terminates.',
        note='Trusted: the visit loop replicated from WebProcessorSession._process_loop; virtual clock makes 30 s read timeouts free.'),
    'C01': dict(
        level='exploration', engine='crawl', design_ref='4/C01',
        technique='deterministic simulation of the whole application (Builder-built Application, SQLite table, scraper, filters, '
                  'pool, HTTP client) crawling a generated site graph over a simulated network with tape-drawn latencies, '
                  'segmentation, set orders, keep-alive and concurrency 1..4; request log and final table rows are compared with a '
                  'breadth-first reference crawl over the known graph',
        text='Seeded search over site graphs (cycles, diamonds, self and duplicate links, alternative spellings of the same URL, '
             'same-host redirects, requisites incl. frames/embed/area, CSS url() and @import chains, fragment-only and case-differing links, a page with > 1000 links, objects that are linked as well as embedded), option combinations (-r, -l, -p, --page-requisites-level, --no-parent, regex, -H, 1..3 start URLs), '
             'concurrency and response orders. Oracle: no canonical URL requested twice, every URL the reference crawl fetches is '
             'requested, nothing else is, exit status 0, termination, every row done/skipped, one row per canonical URL.',
        note='Trusted: refs/site.py (canonical identities), refs/scope.py, the breadth-first reference (depth = shortest link '
             'distance; a URL counts as reachable through any passing discovery record). Open known findings: redirect-target fetched twice; depth race under concurrency with -l; first discovery record wins for linked-and-embedded objects.'),
    'C02': dict(
        level='exploration', engine='crawl', design_ref='4/C02',
        technique='deterministic simulation of the whole application against sites that offer out-of-scope URLs; every request is '
                  'attributed to its queue item through a monitor task + contextvar seen by the simulated transport, and judged '
                  'at the server by an independent scope predicate',
        text='Seeded search over subsets and parameters of the scope options (recursion, depth, requisites, no-parent, domains, '
             'hostnames, span-hosts incl. --span-hosts-allow, regex, directories, suffix lists, tries, strong redirects) and sites '
             'offering foreign hosts, upward paths, deep levels (incl. @import chains beyond --page-requisites-level), rejected names/directories, cross-host redirects, transient 5xx, robots.txt that fails for a while or redirects out of scope. The retry limit is also counted by item runs, independently of the recorded try count. '
             'Oracle per request: refs/scope.py on (URL, item record, options); waivers only for robots.txt and for the span-hosts '
             'rule on a redirect hop with strong redirects.',
        note='Trusted: refs/scope.py as the restatement of the documented option semantics (disagreements are resolved by hand: one '
             'reference bug fixed, one genuine defect fixed). The same monitor also runs in C03\'s resumed runs.'),
    'C20': dict(
        level='exploration', engine='crawl', design_ref='4/C20',
        technique='deterministic simulation of the whole application with robots enabled against 1..3 origins (incl. same host on '
                  'another scheme/port) serving generated robots.txt files directly, via redirect, as 404, as 5xx, small and > 4 KiB, '
                  'with concurrency 1..4 and several user agents; request log judged by an independent robots matcher',
        text='Seeded search over robots.txt files in a dialect on which common matchers agree, site graphs with and without meta '
             'nofollow pages, redirects, origins, concurrency and user agents. Oracle: no requested URL is disallowed for the agent; '
             'robots.txt of an origin is completely received before any other request to it and not requested again by items '
             'started after it was obtained; URLs reachable only through nofollow pages are never requested; 404 means allow-all; '
             '5xx and network faults during the fetch postpone (no request to that origin until it is obtained); rules with query parts, non-ASCII paths and the wildcards * and $ (RFC 9309 2.2.3); tag options and --sitemaps drawn; coverage equals the reference crawl.',
        note='Trusted: refs/robots.py for the restricted dialect, refs/site.py, refs/scope.py. Concurrent first fetches of one '
             'robots.txt are not judged. Open known finding: with --sitemaps robots.txt is requested again as an ordinary URL.'),
    'C03': dict(
        level='fault_enumeration', engine='crash', design_ref='4/C03',
        technique='deterministic simulation with real process kills: run 1 of the whole application executes in a forked child on a '
                  'replayed schedule and dies with os._exit(137) at an enumerated instant (before/after every SQL statement and commit, '
                  'on every server request and delivered segment); a copy of the SQLite files is inspected; run 2 (same command) resumes, '
                  'optionally killed again',
        text='Workloads (HTTP site graph or FTP directory tree, concurrency, schedule; variants: --database-uri, --sitemaps with a skipped start URL, transient 503/resets, > 1000 input URLs, --input-file, depth limits, small --tries) are sampled; per workload the kill instants are enumerated: all of them in '
             'the thorough tier, a drawn sample (incl. instants right after status commits and during schema creation) in the quick '
             'tier. Oracle: no URL recorded done/skipped before the kill is requested again as an item; no row lost or left non-final; '
             'the runs together request every URL of the reference crawl and every URL the uninterrupted run of the same command requested; the resumed run terminates; scope does not widen.',
        note='Trusted: SQLite atomic commit below statement level; process kill (not power loss); schedules replay exactly because one '
             'recorded tape drives run 0 and every killed run. Redirect follow-ups inside an item are exempt from the no-refetch clause.'),
    'C09': dict(
        level='exploration', engine='hostile', design_ref='4/C09',
        technique='deterministic hostile-peer simulation in layers (HTTP session, web session, robots checker, FTP session, full-application '
                  'crawl): valid traffic with grammar-aware mutations, raw random bytes and hostile documents, delivered under tape-drawn '
                  'segmentation and combined with FIN/RST/stall; the oracle is the set of exception types that escape and, end to end, that '
                  'the crawl continues',
        text='Seeded search over mutations of status line, header fields, lengths, chunk framing, trailers, content codings, Location, '
             'Set-Cookie, Content-Type/Disposition, > 64 KiB lines, NULs, bare CR, invalid UTF-8; mutated FTP replies at every step and '
             'mutated LIST/MLSD listings; hostile HTML/CSS/JS/sitemap/robots.txt documents. Oracle: only ServerError, ProtocolError, '
             'SSLVerificationError, NetworkError escape the session/checker APIs; in the crawl layer the unexpected-crash path is not '
             'taken, every other URL is still fetched and hostile URLs end done/skipped/error.',
        note='Closest to fuzzing; what simulation adds is that timing, segmentation and aborts are part of the input and survival is '
             'judged end to end. html5lib only (no lxml). A virtual-time read timeout is a handled network error.'),
}

PENDING_REASON = 'check not built yet in this round (designed in DESIGN.md section 4); no claim is made'


def main():
    checks = []
    for pid in ALL:
        if pid not in CLAIMED:
            continue
        c = CLAIMED[pid]
        checks.append({
            'property_id': pid,
            'quick_cmd': './check %s --tier quick' % pid,
            'thorough_cmd': './check %s --tier thorough' % pid,
            'evidence_file': 'evidence/%s.json' % pid,
            'replay_cmd_template': './check %s --replay {path}' % pid,
            'engine': c['engine'],
            'level_claimed': {'category': c['level'], 'text': c['text'], 'design_ref': 'DESIGN.md section ' + c['design_ref']},
            'level_note': c['note'],
            'technique': c['technique'],
        })
    na = []
    for pid in ALL:
        if pid in CLAIMED:
            continue
        na.append({'property_id': pid, 'reason': NOT_APPLICABLE.get(pid, PENDING_REASON)})
    engines = {}
    for pid, c in CLAIMED.items():
        engines.setdefault(c['engine'], []).append(pid)
    manifest = {
        'version': 1,
        'setup_cmd': 'true',
        'hooks': {
            'guard': 'WPULL_VERIF_SIM',
            'enable': 'no source hooks: all seams are installed from /verif at run time (simlib/compat.py import hook, '
                      'SimLoop, SimNet, SimSet); checks load wpull from /repo working tree on every invocation',
            'baseline_off_cmd': 'cd /repo && /venv/bin/python -m pytest -ra -q -p no:cacheprovider --timeout=900 '
                                '--continue-on-collection-errors',
            'source_commits': [],
            'add_only': True,
        },
        'engines': [{'name': n, 'path': 'harness/%s.py' % n, 'serves_properties': sorted(p),
                     'kind_free_text': 'deterministic simulation harness (virtual-time asyncio loop, simulated TCP/DNS, choice tape)'}
                    for n, p in sorted(engines.items())],
        'checks': checks,
        'not_applicable': na,
        'notes': 'Technique: deterministic simulation with fault injection. One integer (VERIF_SEED) decides every run; '
                 'violations are shrunk on the choice tape and written as replay files under /verif/replays. '
                 'Exit 2 + HARNESS-ERROR is a harness failure, never a verdict. Repairs of genuine defects are '
                 'fix: commits in /repo listed in known_findings.json.',
    }
    with open(os.path.join(VERIF, 'MANIFEST.json'), 'w') as f:
        json.dump(manifest, f, indent=1)
    print('wrote MANIFEST.json: %d checks, %d not_applicable' % (len(checks), len(na)))


if __name__ == '__main__':
    main()
