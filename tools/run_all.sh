#!/bin/sh
# usage: tools/run_all.sh [budget_s] [extra check args]   - runs every claimed check (quick tier) and prints one line each
B="${1:-30}"; shift 2>/dev/null
cd "$(dirname "$0")/.." || exit 2
RC=0
for p in C01 C02 C03 C04 C05 C06 C07 C08 C09 C12 C13 C14 C16 C17 C18 C19 C20; do
  OUT=$(./check $p --tier quick --budget $B "$@" 2>&1); E=$?
  echo "$p exit=$E $(echo "$OUT" | grep -E "^$p:" | cut -c1-150)"
  echo "$OUT" | grep -E "^VIOLATION|^HARNESS" | cut -c1-200
  [ $E -ne 0 ] && RC=1
done
exit $RC
