#!/usr/bin/env python3
"""Confirm seeded changes: for each /verif/seeded/<id>/ apply patch.diff in a scratch worktree of /repo (under
/dev/shm, removed afterwards), run the baseline suite (111 passed expected), the demonstration without and with the
change, and the owning check (quick tier) against the changed tree. Results go into meta.json['confirmation'].

usage: tools/confirm_seeded.py [--budget S] [--jobs N] [ids...]
"""
import concurrent.futures
import json
import os
import re
import subprocess
import sys
import tempfile
import time

VERIF = os.path.dirname(os.path.dirname(os.path.abspath(__file__)))
SEEDED = os.path.join(VERIF, 'seeded')


def sh(cmd, timeout, env=None, cwd=None):
    try:
        p = subprocess.run(cmd, shell=True, capture_output=True, text=True, timeout=timeout, env=env, cwd=cwd)
        return p.returncode, p.stdout + p.stderr
    except subprocess.TimeoutExpired as e:
        return 124, (e.stdout or b'').decode('utf-8', 'replace') if isinstance(e.stdout, bytes) else (e.stdout or '')


def confirm(sid, budget):
    d = os.path.join(SEEDED, sid)
    meta = json.load(open(os.path.join(d, 'meta.json')))
    prop = meta.get('check_property', meta['property'])      # (a few changes break a neighbouring property's clause: judged by that check)
    wt = tempfile.mkdtemp(prefix='wpull-conf-', dir='/dev/shm')
    os.rmdir(wt)
    out = {'when': time.strftime('%Y-%m-%dT%H:%M:%SZ', time.gmtime())}
    try:
        rc, _ = sh('git -C /repo worktree add -q --detach %s HEAD' % wt, 60)
        if rc:
            out['error'] = 'worktree add failed'
            return sid, out
        env = dict(os.environ, VERIF_REPO=wt)
        rc, _ = sh('/venv/bin/python -W ignore %s %s' % (os.path.join(d, 'demo.py'), wt), 600, env=env, cwd=wt)
        out['demo_exit_unchanged'] = rc
        rc, o = sh('git -C %s apply %s' % (wt, os.path.join(d, 'patch.diff')), 60)
        if rc:
            out['error'] = 'patch does not apply to /repo HEAD: ' + o[-300:]
            return sid, out
        rc, o = sh('/venv/bin/python -m pytest -q -p no:cacheprovider --timeout=900 --continue-on-collection-errors 2>&1 | tail -1', 1200, cwd=wt)
        m = re.search(r'(\d+) passed', o)
        out['baseline_passed_with_change'] = int(m.group(1)) if m else None
        rc, _ = sh('/venv/bin/python -W ignore %s %s' % (os.path.join(d, 'demo.py'), wt), 600, env=env, cwd=wt)
        out['demo_exit_changed'] = rc
        t0 = time.time()
        rc, o = sh('%s/check %s --tier quick --no-evidence --budget %d' % (VERIF, prop, budget), 3000, env=env, cwd=VERIF)
        out['check_exit'] = rc
        out['check_wall_s'] = round(time.time() - t0, 1)
        out['violations'] = sorted(set(re.findall(r'^violation class=(\S+ sig=\S+)', o, re.M)))[:8]
        m = re.search(r'runs=(\d+)', o)
        out['check_runs'] = int(m.group(1)) if m else None
        out['caught'] = rc == 1 and bool(out['violations'])
        out['command'] = 'VERIF_REPO=<worktree with patch.diff applied> ./check %s --tier quick --no-evidence --budget %d' % (prop, budget)
    finally:
        sh('git -C /repo worktree remove --force %s' % wt, 60)
    meta['confirmation'] = out
    json.dump(meta, open(os.path.join(d, 'meta.json'), 'w'), indent=1)
    return sid, out


def main():
    args = sys.argv[1:]
    budget, jobs = 60, 3
    if '--budget' in args:
        i = args.index('--budget')
        budget = int(args[i + 1])
        del args[i:i + 2]
    if '--jobs' in args:
        i = args.index('--jobs')
        jobs = int(args[i + 1])
        del args[i:i + 2]
    ids = args or sorted(x for x in os.listdir(SEEDED) if os.path.isdir(os.path.join(SEEDED, x)))
    bad = 0
    with concurrent.futures.ThreadPoolExecutor(max_workers=jobs) as ex:
        for sid, out in ex.map(lambda s: confirm(s, budget), ids):
            ok = out.get('caught') and out.get('baseline_passed_with_change') == 111 and out.get('demo_exit_unchanged') == 0 and out.get('demo_exit_changed') not in (0, None)
            print('%-7s %s baseline=%s demo %s->%s check_exit=%s runs=%s %s' % (
                sid, 'CAUGHT ' if ok else 'PROBLEM', out.get('baseline_passed_with_change'), out.get('demo_exit_unchanged'),
                out.get('demo_exit_changed'), out.get('check_exit'), out.get('check_runs'), (out.get('violations') or [out.get('error')])[:2]))
            sys.stdout.flush()
            bad += 0 if ok else 1
    return 1 if bad else 0


if __name__ == '__main__':
    sys.exit(main())
