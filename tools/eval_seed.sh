#!/bin/sh
# usage: tools/eval_seed.sh <patch.diff> <demo.py> <Cnn> [budget_s]
# Confirms a seeded change: applies it in a scratch worktree of /repo, runs the baseline suite (must be 111 passed),
# runs the demonstration without and with the change, then runs the quick check of the property against it.
set -u
PATCH="$1"; DEMO="$2"; PROP="$3"; BUDGET="${4:-60}"
D=$(mktemp -d /dev/shm/wpull-seed.XXXXXX); rmdir "$D"
git -C /repo worktree add -q --detach "$D" HEAD || exit 2
echo "== demo on unchanged tree"
( cd "$D" && timeout 300 /venv/bin/python -W ignore "$DEMO" "$D" >/dev/null 2>&1 ); echo "demo exit (clean): $?"
git -C "$D" apply "$PATCH" || { echo "PATCH DOES NOT APPLY"; git -C /repo worktree remove --force "$D"; exit 2; }
echo "== baseline tests with the change"
( cd "$D" && timeout 900 /venv/bin/python -m pytest -q -p no:cacheprovider --timeout=900 --continue-on-collection-errors 2>&1 | tail -1 )
echo "== demo with the change"
( cd "$D" && timeout 300 /venv/bin/python -W ignore "$DEMO" "$D" >/dev/null 2>&1 ); echo "demo exit (changed): $?"
echo "== check $PROP against the change"
VERIF_REPO="$D" /verif/check "$PROP" --no-evidence --budget "$BUDGET" 2>&1 | grep -E "^VIOLATION|^KNOWN|^HARNESS|^violation|^$PROP:" | cut -c1-400
git -C /repo worktree remove --force "$D"
