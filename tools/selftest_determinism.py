#!/usr/bin/env python3
"""Determinism self-test (DESIGN 2.6 / 7): the same seeds must give identical run digests
 (a) with 1 worker and with 16 workers, (b) in fresh interpreters, (c) under another PYTHONHASHSEED.
usage: tools/selftest_determinism.py C12 C13 ... [--runs N]
exit 0 iff all digests agree."""
import os
import subprocess
import sys

VERIF = os.path.dirname(os.path.dirname(os.path.abspath(__file__)))


def digests(prop, runs, workers, hashseed, seed):
    env = dict(os.environ)
    env['PYTHONHASHSEED'] = str(hashseed)
    env['VERIF_NO_REEXEC'] = '1'
    env['VERIF_SEED'] = str(seed)
    p = subprocess.run(['/venv/bin/python', '-W', 'ignore', os.path.join(VERIF, 'simlib', 'cli.py'), prop, '--digests',
                        '--runs', str(runs), '--workers', str(workers), '--no-evidence', '--budget', '3000'],
                       capture_output=True, text=True, env=env, cwd=VERIF, timeout=3000)
    d = {}
    for line in p.stdout.splitlines():
        if line.startswith('DIGEST '):
            _, i, h = line.split()
            d[int(i)] = h
    return d, p.returncode, p.stdout[-1500:]


def main():
    args = sys.argv[1:]
    runs = 300
    if '--runs' in args:
        i = args.index('--runs')
        runs = int(args[i + 1])
        del args[i:i + 2]
    bad = 0
    for prop in args:
        base, rc, out = digests(prop, runs, 1, 0, 77)
        if len(base) < runs * 0.9:
            print('%s: only %d digests (rc=%d)\n%s' % (prop, len(base), rc, out))
            bad += 1
            continue
        for workers, hs in ((16, 0), (4, 12345), (16, 999)):
            other, rc2, out2 = digests(prop, runs, workers, hs, 77)
            diff = [i for i in base if other.get(i) != base[i]]
            print('%s: workers=%d PYTHONHASHSEED=%d -> %d/%d digests differ (rc %d/%d)' % (prop, workers, hs, len(diff), len(base), rc, rc2))
            if diff:
                bad += 1
                print('   first differing run indexes: %r' % diff[:10])
    return 1 if bad else 0


if __name__ == '__main__':
    sys.exit(main())
