"""C20 - with robots enabled, disallowed URLs are never requested (DESIGN section 4, C20).
Runs inside harness.crawl (full application); this module holds the generator and the oracle."""
import os
import re

from refs import site as refsite
from refs import robots as refrobots
from refs.site import canon
from harness import crawl

P = 'C20'
AGENTS = [None, 'MyCrawler/1.0 (+http://example.invalid/bot)', 'Mozilla/5.0 (compatible; archivebot)']
PREFIXES = ['/d1/', '/d1/d2/', '/other/', '/a.html', '/b.html', '/img/', '/UP/', '/index.html', '/x.html', '/y/', '/static/', '/d1/p',
            '/a.html?', '/index.html?id=', '/b.html?id=1', '/d1/p1.html?', '/other/q.html?id=0', '/?',
            '/caf\u00e9/', '/caf%C3%A9/', '/caf\u00e9/m']       # raw UTF-8 and percent-encoded spellings of one path
WILD = ['/*.html$', '/*.html', '/d1/*.html$', '/d1/*.html', '/*.png$', '/*.png', '/*.css$', '/*.css', '/*?', '/d1/*/p', '/*/d2/', '/*.html?id=$', '/*l$']


def gen_robots(tape, r):
    """Returns robots.txt text in the restricted dialect."""
    eol = '\r\n' if tape.chance(1, 3, 'rb.crlf') else '\n'
    lines = []
    if tape.chance(1, 3, 'rb.comment'):
        lines.append('# robots.txt generated for verification')
    ngroups = tape.between(1, 3, 'rb.ngroups')
    tokens = ['*', 'wpull', 'mycrawler', 'otherbot', 'archivebot']
    used = []
    for g in range(ngroups):
        tok = tokens[tape.draw(len(tokens), 'rb.agent')]
        if tok in used:
            continue
        used.append(tok)
        if tok != '*':
            r.probes['agent_specific_group'] += 1
        lines.append('User-agent: %s' % (tok if not tape.chance(1, 4, 'rb.agentcase') else tok.upper()))
        if tape.chance(1, 6, 'rb.twoagents'):
            lines.append('User-agent: unrelatedbot')
        k = tape.draw(6, 'rb.kind')
        if k == 0:
            lines.append('Disallow:')              # allow everything
            r.probes['robots_allow_all'] += 1
        elif k == 1:
            lines.append('Disallow: /')
            r.probes['robots_disallow'] += 1
        elif k == 2 and tape.chance(1, 2, 'rb.wild'):
            # rules with '*' and a final '$' (RFC 9309 2.2.3); Disallow lines only, so that the order of evaluation cannot matter.
            # The anchored and the unanchored form of one rule mean different things for a URL with a query.
            n = tape.between(1, 3, 'rb.nrules')
            for _ in range(n):
                lines.append('Disallow: %s' % WILD[tape.draw(len(WILD), 'rb.wildrule')])
            r.probes['robots_disallow'] += 1
            r.probes['robots_wildcard_rules'] += 1
        else:
            n = tape.between(1, 3, 'rb.nrules')
            for _ in range(n):
                p = PREFIXES[tape.draw(len(PREFIXES), 'rb.prefix')]
                if p == '/d1/' and tape.chance(1, 2, 'rb.refine'):
                    lines.append('Allow: /d1/d2/')
                key = 'Disallow' if not tape.chance(1, 5, 'rb.keycase') else 'disallow'
                lines.append('%s: %s' % (key, p))
                r.probes['robots_disallow'] += 1
        lines.append('')
    text = eol.join(lines) + eol
    if tape.chance(1, 3, 'rb.no_final_newline'):
        text = text.rstrip('\r\n')
    return text


def run_c20(tape, r, tier, sandbox):
    nhosts = tape.choice((1, 2, 3), 'site.nhosts')
    site, starts, pages, assets, redirects = refsite.gen_site(tape, nhosts=nhosts, npages=tape.between(3, 8, 'site.npages'))
    main = site.origins[0]
    if tape.chance(1, 50, 'site.many_origins'):
        # a crawl over more origins than any reasonable cache bound (two URLs per origin, all first URLs before all second
        # URLs): what was obtained for an origin stays obtained
        n_or = tape.choice((101, 130), 'site.many_origins.n')
        firsts, seconds = [], []
        for i in range(n_or):
            o = site.add_origin('http', 'h%03d.many.test' % i)
            a = site.add(o, '/a.html', 'page')
            b = site.add(o, '/b.html', 'page')
            firsts.append(a)
            seconds.append(b)
        starts = list(starts) + firsts + seconds
        pages += firsts + seconds
        r.probes['many_origins'] += 1
    # an extra origin on the same host name (different scheme or port): robots.txt is per (scheme, host, port)
    if tape.chance(1, 3, 'site.sameHostOtherOrigin'):
        alt = site.add_origin(*tape.choice((('https', 'site.test', 443), ('http', 'site.test', 8081)), 'site.alt'), ip=main.ip)
        ap = site.add(alt, '/alt.html', 'page')
        ap2 = site.add(alt, '/d1/altdeep.html', 'page')
        ap.links.append((ap2, refsite.spell(tape, ap, ap2)))
        starts[0].links.append((ap, refsite.spell(tape, starts[0], ap)))
        pages += [ap, ap2]
        r.probes['multi_origin'] += 1
    if nhosts > 1:
        r.probes['multi_origin'] += 1
    for p in pages[1:]:
        # (a page that other scrapers read as well - '.js' in its path - is declared nofollow more often: the declaration holds for the page)
        if tape.chance(1, 2 if '.jsp' in p.path else 5, 'site.nofollow'):
            p.nofollow = True
            r.probes['nofollow_page'] += 1
    site.finalize()
    ua = AGENTS[tape.draw(len(AGENTS), 'ua')]
    opts = {'robots': True, 'recursive': True, 'level': 'inf', 'page_requisites': tape.chance(1, 2, 'opt.p'),
            'span_hosts': nhosts > 1, 'user_agent': ua, 'tries': tape.choice((3, 5), 'opt.tries')}
    # robots per origin
    robots = {}
    for o in site.origins:
        mode = tape.weighted([(5, 'direct'), (2, 'big'), (1, 'redirect'), (1, '404'), (1, '5xx-k'), (1, '5xx-always'), (1, 'reset-k'), (1, 'cut-k'), (4, 'garbled-k')], 'rb.mode')
        text = gen_robots(tape, r)
        if mode == 'big':
            pad = '# ' + 'padding ' * 10 + '\n'
            text = pad * (4200 // len(pad) + 1) + text
            r.probes['robots_big'] += 1
        robots[o.key()] = {'mode': mode, 'text': text, 'k': tape.between(1, 2, 'rb.5xx.k'), 'exchanges': [], 'fetches': 0,
                           # bytes that are not UTF-8 somewhere in the file (a comment in a legacy encoding): the rules keep their meaning
                           'raw_prefix': tape.choice((b'', b'', b'', b'', b'# robots.txt for caf\xe9 and \xfcber (legacy comment)\n', b'\xef\xbb\xbf'), 'rb.legacy_bytes')}      # incl. a UTF-8 byte order mark
        if robots[o.key()]['raw_prefix']:
            r.probes['robots_with_non_utf8_bytes'] += 1
        r.probes.update({'robots_404': int(mode == '404'), 'robots_5xx': int(mode.startswith('5xx')), 'robots_redirect': int(mode == 'redirect')})
    # the main origin's robots.txt may live on another origin (redirect across origins): the rules are the main origin's, the
    # serving origin keeps its own robots.txt
    foreign_home = None
    others = [o for o in site.origins if o.key() != main.key()]
    if others and robots[main.key()]['mode'] == 'redirect' and tape.chance(1, 2, 'rb.redirect.foreign'):
        foreign_home = others[tape.draw(len(others), 'rb.redirect.foreign.o')]
        robots[main.key()]['foreign_home'] = foreign_home.key()
        r.probes['robots_redirect_to_other_origin'] += 1
    concurrency = tape.choice((1, 2, 3, 4), 'concurrency')
    if concurrency > 1:
        r.probes['concurrency>1'] += 1
    dbpath = os.path.join(sandbox, 'db.sqlite')
    # tag options that leave every link-bearing tag of the generated pages in place: the robots meta tag is not a link
    tag_extra = []
    k = tape.draw(6, 'opt.tags')
    if k == 1:
        tag_extra = ['--follow-tags', 'a,area,img,link,script,embed,input,iframe']
    elif k == 2:
        tag_extra = ['--ignore-tags', 'meta']
    elif k == 3:
        tag_extra = ['--ignore-tags', 'meta,object,applet']
    if tag_extra:
        r.probes['tag_options'] += 1
    with_sitemaps = tape.chance(1, 6, 'opt.sitemaps')
    if with_sitemaps:
        # --sitemaps queues /robots.txt and /sitemap.xml of every start URL's origin as ordinary URLs
        tag_extra = tag_extra + ['--sitemaps']
        r.probes['sitemaps_option'] += 1
    argv = crawl.argv_for(opts, [s.url for s in starts], dbpath, extra=tag_extra)

    def setup(h, server, net):
        def robots_beh(conn, entry, res):
            o = entry['origin']
            st = robots[o]
            entry['robots'] = True
            ex = {'t': entry['t'], 'target': entry['target'],
                  # (with --sitemaps /robots.txt is also fetched as an ordinary item: that answer does not go to the robots checker)
                  'own_item': bool(entry.get('rec')) and canon(entry['rec']['url']).endswith('/robots.txt')}
            st['exchanges'].append(ex)
            mode = st['mode']
            if entry['target'] == '/robots.txt':
                st['fetches'] += 1
                if mode == '404':
                    server.send(conn, 404, 'Not Found', [('Content-Type', 'text/plain')], b'no robots here')
                    ex['status'] = 404
                elif mode == '5xx-always' or (mode == '5xx-k' and st['fetches'] <= st['k']):
                    r.faults['robots_5xx'] += 1
                    server.send(conn, 503, 'Unavailable', [('Content-Type', 'text/plain')], b'try later')
                    ex['status'] = 503
                elif mode in ('reset-k', 'cut-k') and st['fetches'] <= st['k']:
                    # a network fault while robots.txt is being fetched: not an answer at all
                    r.faults['robots_' + mode] += 1
                    r.probes['robots_netfault'] += 1
                    if mode == 'reset-k':
                        conn.reset()
                    else:
                        conn.send(b'HTTP/1.1 200 OK\r\nContent-Type: text/plain\r\nContent-Length: 500\r\n\r\nUser-agent: *\n')
                        conn.finish()
                    ex['status'] = 'fault'
                elif mode == 'garbled-k' and st['fetches'] <= st['k']:
                    # an answer that is no HTTP message: wpull treats it like a missing file (allow everything) - its documented
                    # choice, which the oracle follows: what counts is the LAST answer received for the origin
                    r.faults['robots_garbled'] += 1
                    r.probes['robots_garbled_answer'] += 1
                    conn.send(b'HTTP/1.1 2OO OK\r\nContent-Type: text/plain\r\nContent-Length: 5\r\n\r\nhello')
                    conn.finish()
                    ex['status'] = 'garbled'
                elif mode == 'redirect':
                    body = b'moved' if st['k'] == 1 else (b'<html><head><title>301 Moved</title></head><body>The document has moved '
                                                          b'<a href="/robots2.txt">here</a>.' + b' padding' * 60 + b'</body></html>')
                    loc = '/robots2.txt' if foreign_home is None or o != main.key() else foreign_home.prefix + '/robots-of-site.txt'
                    server.send(conn, 301, 'Moved', [('Location', loc), ('Content-Type', 'text/html')], body)
                    ex['status'] = 301
                else:
                    server.send(conn, 200, 'OK', [('Content-Type', 'text/plain')], st['raw_prefix'] + st['text'].encode('utf-8'))
                    ex['status'] = 200
            else:
                server.send(conn, 200, 'OK', [('Content-Type', 'text/plain')], st['raw_prefix'] + st['text'].encode('utf-8'))
                ex['status'] = 200
            ex['done_at'] = max(conn._cursor, h.loop.time())
        for o in site.origins:
            server.behaviour[(o.key(), '/robots.txt')] = robots_beh
            server.behaviour[(o.key(), '/robots2.txt')] = robots_beh
        if foreign_home is not None:
            def elsewhere(conn, entry, res):
                # the main origin's rules, served by the other origin
                st = robots[main.key()]
                entry['robots'] = True
                ex = {'t': entry['t'], 'target': entry['target'], 'status': 200}
                st['exchanges'].append(ex)
                server.send(conn, 200, 'OK', [('Content-Type', 'text/plain')], st['raw_prefix'] + st['text'].encode('utf-8'))
                ex['done_at'] = max(conn._cursor, h.loop.time())
            server.behaviour[(foreign_home.key(), '/robots-of-site.txt')] = elsewhere
    out = crawl.run_app(tape, r, site, argv, concurrency, sandbox, setup=setup)
    rows = crawl.read_rows(dbpath)
    server = out['server']
    if out.get('hang'):
        r.violate(P, 'no-termination', 'hang', out['hang'][:1200])
    if out.get('exception'):
        r.violate(P, 'crash', 'exception-escaped-app-run', out['exception'][-1200:])
    if out['crashed']:
        r.violate(P, 'crash', 'unexpected-crash', 'the application reported an unexpected crash (exit %r)' % out['exit'])
    groups = {}
    accepted_at = {}
    for o in site.origins:
        st = robots[o.key()]
        if st['mode'] == '404':
            groups[o.key()] = []
        elif st['mode'] == '5xx-always':
            groups[o.key()] = None
        else:
            groups[o.key()] = refrobots.parse(st['text'])
        done = [ex['done_at'] for ex in st['exchanges'] if ex.get('status') in (200, 404, 'garbled')]
        accepted_at[o.key()] = min(done) if done else None
    offered = False
    for e in server.log:
        o = e['origin']
        st = robots[o]
        ua_sent = (e['fields'].get('user-agent') or [''])[0]
        path = e['target']          # rules may mention the query
        if e.get('robots'):
            # (c) no robots.txt request once it was obtained
            acc = accepted_at[o]
            started = (e['rec'] or {}).get('item_start')
            # a fetch by an item that was already being processed when the file arrived is a concurrent first fetch: not judged
            if e['target'] == '/robots.txt' and acc is not None and started is not None and started > acc + 1e-9:
                own_item = bool(e['rec']) and canon(e['rec']['url']).endswith('/robots.txt')
                r.violate(P, 'robots-refetched', 'queued-as-sitemap-source' if (with_sitemaps and own_item) else 'after-accepted',
                          'robots.txt of %r requested again at t=%.3f (item %s) although it had been obtained at t=%.3f'
                          % (o, e['t'], e['rec'] and e['rec']['url'], acc))
            continue
        g = groups[o]
        if g is None:
            r.violate(P, 'requested-despite-robots-5xx', 'always-5xx', '%s requested although robots.txt of %r only ever answered 5xx' % (e['url'], o))
            continue
        # (b) robots obtained first
        acc = accepted_at[o]
        if acc is None or e['t'] < acc - 1e-9:
            r.violate(P, 'request-before-robots', st['mode'], '%s requested at t=%.3f before robots.txt of %r had been received (%r)'
                      % (e['url'], e['t'], o, acc))
        # (a) allowed?
        if st['mode'] == 'garbled-k':
            # the rules in force are those of the last answer received (a garbled one: none). The item decided somewhere between
            # its start and this request: the request is wrong only if every state in force during that time forbids it.
            evs = sorted((ex['done_at'], ex['status']) for ex in st['exchanges'] if ex.get('status') in (200, 404, 'garbled') and 'done_at' in ex and not ex.get('own_item'))
            s0 = (e['rec'] or {}).get('item_start') or e['t']
            before = [stt for tt, stt in evs if tt <= s0 + 1e-9]
            states = ([before[-1]] if before else []) + [stt for tt, stt in evs if s0 + 1e-9 < tt <= e['t'] + 1e-9]
            if any(stt != 200 for stt in states) or not states:
                continue
        if not refrobots.allowed(g, ua_sent, path):
            pos = _rule_pos(st['text'], path)
            sig = 'rule-beyond-4096-bytes' if pos is not None and pos >= 4096 else 'plain'
            g_ascii = [(agents, [(a, p) for a, p in rules if all(ord(c) < 128 for c in p)]) for agents, rules in g]
            if refrobots.allowed(g_ascii, ua_sent, path):
                sig = 'rule-in-raw-utf8'        # the deciding rule is written in raw UTF-8
            r.violate(P, 'disallowed-url-requested', sig, '%s requested with User-Agent %r although robots.txt of %r disallows it (served via %s; rule at byte %r)'
                      % (e['url'], ua_sent[:40], o, st['mode'], pos))
    # (d)/(e) coverage with the reference crawl under robots + nofollow
    own = sorted({s.origin.host for s in starts})
    ua_eff = ua or 'Wpull'

    def allow(res):
        g = groups[res.origin.key()]
        if g is None:
            return False
        return refrobots.allowed(g, ua_eff, res.target)
    ref_rows, expected = crawl.reference_crawl(site, starts, opts, own, allow=allow)
    reqs = {}
    for e in server.log:
        if not e.get('robots') and not (with_sitemaps and e['target'] == '/sitemap.xml'):
            reqs.setdefault(canon(e['url']), []).append(e)
    followed = {t for rec in ref_rows.values() for t in rec.get('followed', [])}
    for res in site.order:
        g = groups[res.origin.key()]
        if g and not refrobots.allowed(g, ua_eff, res.target):
            offered = True
    if offered:
        r.probes['disallowed_offered'] += 1
    if not r.violations and not any(v['mode'] == 'garbled-k' for v in robots.values()):
        for u in expected:
            if u not in reqs:
                res = site.by_url(u)
                mode = robots[res.origin.key()]['mode']
                r.violate(P, 'missed-url', 'robots-' + mode, '%s is allowed and reachable (not through nofollow pages) but was never requested; robots mode %s; row %r'
                          % (u, mode, [(x['status'], x['try_count']) for x in rows if canon(x['url']) == u][:1]))
        for u in reqs:
            if u not in expected and u not in followed:
                rec = ref_rows.get(u)
                only_nofollow = rec is None
                sig = 'reachable-only-through-nofollow-page' if only_nofollow else 'not-expected'
                r.violate(P, 'nofollow-ignored' if only_nofollow else 'extra-request', sig,
                          '%s was requested; reference: %r' % (u, rec and {k: v for k, v in rec.items() if k in ('level', 'passes', 'failed', 'robots')}))
    r.workload = ({k: v for k, v in opts.items() if v not in (None, False, ())}, [s.url for s in starts], concurrency,
                  sorted((str(k), v['mode'], v['text']) for k, v in robots.items()),
                  [(x.kind, x.url, x.nofollow, [sp for _, sp in x.links], [sp for _, sp, _ in x.inlines]) for x in site.order])
    r.nontrivial = offered and len(server.log) >= 3
    r.sample = {'options': {k: v for k, v in opts.items() if v not in (None, False, ())}, 'starts': [s.url for s in starts], 'concurrency': concurrency,
                'robots': {str(k): {'mode': v['mode'], 'text': v['text'][-300:]} for k, v in robots.items()},
                'site': [{'kind': x.kind, 'url': x.url, 'nofollow': x.nofollow, 'links': [sp for _, sp in x.links][:6]} for x in site.order][:14],
                'requests': [(round(e['t'], 3), e['url']) for e in server.log][:40], 'exit': out['exit']}
    for e in server.log:
        r.log('t=%.3f %s %s item=%s' % (e['t'], e['method'], e['url'], e['rec'] and e['rec']['url']))
    r.log('exit=%r hang=%r' % (out['exit'], out.get('hang')))
    seen = set()
    uniq = []
    for v in r.violations:
        if (v.prop, v.cls, v.sig) not in seen:
            seen.add((v.prop, v.cls, v.sig))
            uniq.append(v)
    r.violations = uniq
    return r


def _rule_pos(text, path):
    """Byte offset of the first Disallow rule whose prefix matches path."""
    for m in re.finditer(r'(?im)^disallow:\s*(\S+)', text):
        if path.startswith(m.group(1)):
            return len(text[:m.start()].encode('utf-8'))
    return None
