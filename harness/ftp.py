"""C17 - each FTP command is one line, replies are read whole, transfers complete only after data EOF + 226
(DESIGN section 4, C17).

Real: wpull.protocol.ftp.{client,command,stream,request,util}, wpull.network.{pool,connection}
Stub: TCP transport (control + passive data connections), DNS, clock, FTP server (reactive state machine)
"""
import asyncio
import functools
import io
import re

from simlib.env import SimEnv, SimDeadlock, SimBudgetExceeded, task_stacks
from simlib.runner import Result
from simlib import simset
from simlib.tape import Tape
from refs import ftp as refftp

import wpull.network.pool as wpool
import wpull.protocol.abstract.client as wabs
import wpull.protocol.abstract.stream as wastream
import wpull.protocol.ftp.client as wftpclient
from wpull.network.pool import ConnectionPool
from wpull.network.connection import Connection
from wpull.network.dns import Resolver
from wpull.errors import NetworkError, ProtocolError, ServerError, AuthenticationError
from wpull.protocol.ftp.client import Client as FTPClient
from wpull.protocol.ftp.request import Request as FTPRequest
from wpull.protocol.ftp.stream import ControlStream

simset.inject(wpool, wabs, wastream)

P = 'C17'
BUDGETS = {'C17': (45, 900, 100)}
LEVELS = {'C17': 'exploration'}
PROBES = {'C17': ['encoded_crlf_in_path', 'encoded_crlf_in_login', 'encoded_nul', 'multiline_reply', 'inner_line_with_digits',
                  'reply_split_across_reads', 'negative_completion_after_codeless_line', 'ok226_before_data_eof', 'data_eof_before_226', 'data_reset', 'no_completion_reply',
                  'negative_completion', 'error_reply_step', 'listing', 'control_reuse', 'download_ok', 'metamorphic', 'big_file', 'slow_transfer', 'data_stall', 'control_cut_inside_reply']}
INFO = {'C17': {
    'rule': 'workload = 1..3 FTP fetches (file or listing) on one control connection: URL path/user/password with drawn bytes '
            '(any byte value percent-encoded, incl. CR LF NUL), reply texts and multi-line shapes per step, error replies, '
            'data/226 relative timing, data reset, control+data segmentation; non-trivial iff a multi-line reply or an encoded '
            'control byte or a data-path fault is present; distinct by script digest',
    'components': {'real': ['wpull.protocol.ftp.client.Client/Session', 'wpull.protocol.ftp.command.Commander',
                            'wpull.protocol.ftp.stream.ControlStream/DataStream', 'wpull.protocol.ftp.request (Command, Reply, Request)',
                            'wpull.protocol.ftp.util.parse_address', 'wpull.network pool/connection', 'asyncio streams'],
                   'stub': ['TCP transport incl. passive data connections', 'DNS', 'clock', 'FTP server state machine (simulated peer)']},
    'assumptions': ['refs/ftp.py reply assembler (RFC 959 4.2: terminator line has the same code)',
                    'ControlStream.read_reply is observed through a logging subclass installed in wpull.protocol.ftp.client'],
}}

SPECIAL = ['%0D%0A', '%0A', '%0D', '%00', '%20', '%25', '%7F', '%C3%A9', '%FF', '%2F', '%3B', '%0D%0ADELE%20x', '%0ANOOP']
WELCOMES = [b'220 ready\r\n', b'220-hello\r\n220 ready\r\n', b'220-line one\r\n second line\r\n220-third\r\n\r\n220 go\r\n']


class LogControlStream(ControlStream):
    log = None

    @asyncio.coroutine
    def read_reply(self):
        try:
            cid = self._connection.writer.transport.id
        except AttributeError:
            cid = None
        reply = yield from super().read_reply()
        if LogControlStream.log is not None:
            LogControlStream.log.append((cid, reply.code, reply.text))
        return reply


wftpclient.ControlStream = LogControlStream


# what a server may say when a transfer failed; a bare CR inside the line, followed by what looks like a positive completion, is
# still part of this ONE negative reply line (or an error of the reply - never a 226)
ABORT_TEXTS = ('transfer aborted', 'transfer failed', 'Failure writing network stream.\r226 Transfer complete.',
               'aborted\r226-Transfer complete', 'failed (226 Transfer complete was not reached)')


def gen_text(tape, allow_special=True):
    parts = []
    for _ in range(tape.between(1, 3, 'txt.n')):
        k = tape.draw(8, 'txt.k')
        if k < 5 or not allow_special:
            parts.append(tape.choice(('file', 'a.txt', 'dir', 'x', 'Readme', 'data.bin'), 'txt.word'))
        else:
            parts.append(SPECIAL[tape.draw(len(SPECIAL), 'txt.special')])
    return ''.join(parts)


def gen_reply(tape, code, text, allow_multi=True):
    """Returns wire bytes for a reply with the given code; multi-line shapes drawn."""
    shape = tape.draw(6, 'reply.shape') if allow_multi else 0
    c = str(code).encode()
    t = text.encode('utf-8', 'surrogateescape') if isinstance(text, str) else text
    if shape < 3:
        return c + b' ' + t + b'\r\n', False, False
    inner = []
    digits = False
    for _ in range(tape.between(1, 3, 'reply.inner.n')):
        k = tape.draw(15, 'reply.inner.k')
        if k == 12:
            inner.append(c + b'-page one\x0c' + c + b' page two')          # form feed, then what looks like a final line: still ONE line
            digits = True
        elif k == 13:
            inner.append(b'info\xe2\x80\xa8' + c + b' after a line separator (U+2028)')
            digits = True
        elif k == 14:
            inner.append(b'motd\xc2\x85' + c + b' after NEL, ' + b'a\x1cb\x1dc\x1ed\x0be')
            digits = True
        elif k == 9:
            inner.append(c + b'3 bytes sent')             # the reply's own code followed by another digit: a text line
            digits = True
        elif k == 10:
            inner.append(c + tape.choice((b':used', b'.5 MB free', b'users online', b'_'), 'reply.inner.glue'))
            digits = True
        elif k == 11:
            inner.append(c + b'0')
            digits = True
        elif k == 0:
            inner.append(c + b'-' + b'more')
        elif k == 1:
            inner.append(b' indented text')
        elif k == 2:
            inner.append(b'')
        elif k == 3:
            inner.append(b'12 short digits')
            digits = True
        elif k == 4:
            inner.append(b'1234 four digits')
            digits = True
        elif k == 5:
            inner.append(b' ' + c + b' indented same code')
            digits = True
        elif k == 6:
            inner.append(b'plain words')
        elif k == 8:
            inner.append(b'999 line starting with another code')      # RFC 959: only the SAME code ends the reply
            digits = True
        else:
            inner.append(c + b'-')
    eol = b'\r\n'
    if tape.chance(1, 4, 'reply.first_empty'):
        t = b''                                    # bare 'ddd-' first line
        other = b'226' if c != b'226' else b'200'
        k2 = tape.draw(4, 'reply.first_empty.k')
        if k2 == 1:
            inner.insert(0, other + b'-looks like the start of another reply')
        elif k2 == 2:
            inner.insert(0, other + b'-another code')
            inner.append(other + b' Transfer complete (text inside a %s reply)' % c)
        elif k2 == 3:
            inner.append(other + b' text line with another code')
        digits = True
    return c + b'-' + t + eol + b''.join(x + eol for x in inner) + c + b' end' + eol, True, digits


class FTPServer:
    """One simulated FTP server (control listener + passive data listeners)."""

    def __init__(self, h, net, tape, ip='10.0.1.1'):
        self.h = h
        self.net = net
        self.tape = tape
        self.ip = ip
        self.next_port = 40000
        self.sessions = []
        net.listen(ip, 21, self.accept)

    def accept(self, conn):
        s = _Control(self, conn)
        self.sessions.append(s)
        return s


class _Data:
    def __init__(self, ctl, conn):
        self.ctl = ctl
        ctl.data_conn = conn
        if ctl.pending_transfer:
            ctl.run_transfer()

    def on_data(self, conn, data):
        pass

    def on_eof(self, conn):
        conn.finish()


class _Control:
    def __init__(self, srv, conn):
        self.srv = srv
        self.h = srv.h
        self.conn = conn
        self.buf = b''
        self.lines = []            # every command line received (without CRLF)
        self.sent = bytearray()    # every control byte sent
        self.data_conn = None
        self.pending_transfer = None
        self.transfers = 0
        self.say(self.h.plan.get('welcome', WELCOMES[0]))

    def say(self, data):
        self.sent += data
        self.conn.send(data, cuts=[i + 1 for i, b in enumerate(data) if b in (10, 13)][:6])

    def reply(self, step, code, text):
        h = self.h
        ov = h.plan.get(('reply', step, len([x for x in self.lines if x.split(b' ')[0] == step.encode()])))
        if ov is not None:
            self.say(ov)
            return int(ov[:3]) if ov[:3].isdigit() else None
        data, multi, digits = gen_reply(h.stape, code, text, allow_multi=h.multi_ok)
        if multi:
            h.r.probes['multiline_reply'] += 1
        if digits:
            h.r.probes['inner_line_with_digits'] += 1
        if h.plan.get(('cut', step)) and not getattr(h, 'cut_fired', False):
            # the control connection is lost inside the last line of this reply (after 'ddd ' at least, before its LF)
            h.cut_fired = True
            last = data.rstrip(b'\r\n').rfind(b'\n') + 1
            lo, hi = last + 4, len(data.rstrip(b'\r\n'))
            k = lo + h.stape.draw(max(1, hi - lo + 1), 'cut.at')
            h.r.probes['control_cut_inside_reply'] += 1
            h.r.faults['ftp_control_cut.' + step] += 1
            self.say(data[:k])
            self.conn.finish()
            return None
        self.say(data)
        return code

    def on_data(self, conn, data):
        self.buf += data
        while b'\r\n' in self.buf:
            line, self.buf = self.buf.split(b'\r\n', 1)
            self.lines.append(line)
            self.handle(line)

    def on_eof(self, conn):
        conn.finish()

    def handle(self, line):
        h = self.h
        verb, _, arg = line.partition(b' ')
        v = verb.decode('latin-1').upper()
        h.r.log('t=%.3f server got %r' % (h.loop.time(), line[:80]))
        err = h.plan.get(('error', v, sum(1 for x in self.lines if x.partition(b' ')[0] == verb) - 1))
        if v not in ('USER', 'PASS', 'TYPE', 'PASV', 'SIZE', 'REST', 'RETR', 'MLSD', 'LIST'):
            h.unexpected_verbs.append(line)
            self.reply(v, 500, 'unknown command')
            return
        if err is not None:
            h.r.probes['error_reply_step'] += 1
            h.r.faults['ftp_error_reply.' + v] += 1
            self.reply(v, err, 'failed')
            return
        if v == 'USER':
            if h.plan.get('user_230'):
                self.reply(v, 230, 'logged in')
            else:
                self.reply(v, 331, 'password please')
        elif v == 'PASS':
            self.reply(v, 230, 'logged in')
        elif v == 'TYPE':
            self.reply(v, 200, 'type set')
        elif v == 'PASV':
            port = self.srv.next_port
            if not h.plan.get('pasv_reuse'):
                self.srv.next_port += 1         # (with pasv_reuse every 227 names the same port, as small servers do)
            self.data_conn = None
            self.srv.net.listen(self.srv.ip, port, lambda c: _Data(self, c))
            a = self.srv.ip.split('.')
            style = h.stape.draw(3, 'pasv.style')
            addr = '%s,%s,%s,%s,%d,%d' % (a[0], a[1], a[2], a[3], port >> 8, port & 255)
            text = ('Entering Passive Mode (%s).' % addr, 'ok (%s)' % addr.replace(',', ' , '), '=(%s)' % addr)[style]
            self.reply(v, 227, text)
        elif v == 'SIZE':
            f = h.files.get(arg)
            if f is None:
                self.reply(v, 550, 'no such file')
            else:
                self.reply(v, 213, str(len(f)))
        elif v == 'REST':
            self.reply(v, 350, 'restarting')
        elif v in ('RETR', 'MLSD', 'LIST'):
            if v == 'MLSD' and not h.plan.get('mlsd', True):
                self.reply(v, h.stape.choice((500, 502), 'mlsd.code'), 'not understood')
                return
            if v == 'RETR':
                content = h.files.get(arg)
                if content is None:
                    self.reply(v, 550, 'no such file')
                    return
            elif v == 'MLSD':
                content = h.listing_mlsd
            else:
                content = h.listing_list
            self.pending_transfer = (v, content)
            if self.data_conn is not None:
                self.run_transfer()

    def run_transfer(self):
        h = self.h
        v, content = self.pending_transfer
        self.pending_transfer = None
        k = self.transfers
        self.transfers += 1
        mode = h.plan.get(('transfer', k), 'normal')
        dc = self.data_conn
        self.reply(v + '.begin', h.stape.choice((150, 125), 'begin.code'), 'opening data connection')
        info = {'verb': v, 'mode': mode, 'len': len(content), 'sent_all': False, 'eof': False, 'ok226': False,
                'fetch': getattr(h, 'current_fetch', None)}
        h.transfers.append(info)
        if mode == 'normal':
            order = h.stape.draw(3, 'transfer.order')
            if order == 0:          # data, EOF, then 226
                dc.send(content)
                dc.finish()
                self.conn.wait(h.stape.choice((0.0, 0.05, 1.0), 'transfer.gap'))
                done = self.reply(v + '.end', 226, 'transfer complete')
                h.r.probes['data_eof_before_226'] += 1
            elif order == 1:        # 226 first, data later
                done = self.reply(v + '.end', 226, 'transfer complete')
                dc.wait(h.stape.choice((0.05, 1.0, 3.0), 'transfer.gap'))
                dc.send(content)
                dc.finish()
                h.r.probes['ok226_before_data_eof'] += 1
            else:                   # simultaneous
                dc.send(content, delay=0.0)
                dc.finish()
                done = self.reply(v + '.end', 226, 'transfer complete')
            info.update(sent_all=True, eof=True, ok226=done == 226)
            if done is None:
                info['mode'] = 'completion_reply_cut'
        elif mode == 'slow':
            # a healthy but slow transfer: no single gap reaches the read timeout, the whole transfer exceeds it (the control
            # connection sits idle meanwhile)
            gap = 0.4 * h.timeout
            n = h.stape.between(3, 5, 'slow.pieces')
            step = max(1, len(content) // n)
            pieces = [content[i:i + step] for i in range(0, len(content), step)] or [b'']
            for pc in pieces:
                dc.wait(gap)
                if pc:
                    dc.send(pc)
            dc.finish()
            self.conn.wait(gap * len(pieces) + 0.1)
            self.reply(v + '.end', 226, 'transfer complete')
            info.update(sent_all=True, eof=True, ok226=True)
            h.r.probes['slow_transfer'] += 1
        elif mode == 'ok226_then_stall':
            # completion claimed early, then the data connection stalls for ever (never closed by the server)
            cut = h.stape.draw(len(content) + 1, 'transfer.cut')
            self.reply(v + '.end', 226, 'transfer complete')
            if cut:
                dc.send(content[:cut])
            info['ok226'] = True
            h.r.probes['data_stall'] += 1
            h.r.faults['ftp_data_stall_after_226'] += 1
        elif mode == 'data_reset':
            cut = h.stape.draw(len(content) + 1, 'transfer.cut')
            if cut:
                dc.send(content[:cut])
            dc.reset()
            self.reply(v + '.end', h.stape.choice((426, 451, 450, 550), 'abort.code'), h.stape.choice(ABORT_TEXTS, 'abort.text'))
            h.r.probes['data_reset'] += 1
            h.r.faults['ftp_data_reset'] += 1
        elif mode == 'negative_completion':
            cut = h.stape.draw(len(content) + 1, 'transfer.cut')
            if cut:
                dc.send(content[:cut])
            dc.finish()
            info['eof'] = True
            if h.multi_ok and h.stape.chance(1, 6, 'abort.after_codeless_line'):
                # a line without a code (empty, or a stray banner word) in front of a multi-line negative reply whose text mentions
                # another code: whatever the client makes of the stray line, the server never confirmed the transfer
                code = h.stape.choice((426, 451), 'abort.code')
                stray = h.stape.choice((b'', b'busy', b' '), 'abort.stray')
                self.say(stray + b'\r\n' + b'%d-Transfer aborted\r\n226 of 500 blocks were sent\r\n%d Closing data connection\r\n' % (code, code))
                self.out_of_grammar = True
                h.r.probes['negative_completion_after_codeless_line'] += 1
            else:
                self.reply(v + '.end', h.stape.choice((426, 451, 552, 450, 550, 221, 225, 200), 'abort.code'), h.stape.choice(ABORT_TEXTS, 'abort.text'))      # (a positive reply other than 226/250 confirms nothing)
            h.r.probes['negative_completion'] += 1
            h.r.faults['ftp_negative_completion'] += 1
        elif mode == 'no_completion':
            dc.send(content)
            dc.finish()
            info.update(sent_all=True, eof=True)
            h.r.probes['no_completion_reply'] += 1
            h.r.faults['ftp_no_completion_reply'] += 1
        elif mode == 'ok226_then_reset':
            # completion claimed but the data connection is reset mid-way
            cut = h.stape.draw(len(content) + 1, 'transfer.cut')
            self.reply(v + '.end', 226, 'transfer complete')
            if cut:
                dc.send(content[:cut])
            dc.reset()
            info['ok226'] = True
            h.r.probes['data_reset'] += 1
            h.r.faults['ftp_data_reset_after_226'] += 1


class H:
    pass


def gen_script(tape, faults_on):
    n = tape.between(1, 3, 'nfetch')
    fetches = []
    for i in range(n):
        kind = 'listing' if tape.chance(1, 4, 'listing') else 'file'
        path = '/' + gen_text(tape) + ('/' if kind == 'listing' and tape.chance(1, 2, 'slash') else '')
        fetches.append({'kind': kind, 'path': path})
    user = pw = None
    if tape.chance(1, 3, 'login'):
        user = gen_text(tape)
        pw = gen_text(tape)
    plan = {}
    plan['welcome'] = WELCOMES[tape.draw(len(WELCOMES), 'welcome')]
    plan['user_230'] = tape.chance(1, 6, 'user230')
    plan['mlsd'] = not tape.chance(1, 3, 'nomlsd')
    plan['shape_seed'] = tape.draw(1 << 20, 'shape_seed')
    plan['pasv_reuse'] = tape.chance(1, 4, 'pasv_reuse')
    if faults_on:
        for _ in range(tape.between(1, 2, 'nfaults')):
            k = tape.draw(8, 'fault.kind')
            if k == 7:
                plan[('cut', tape.choice(('RETR.end', 'RETR.end', 'LIST.end', 'MLSD.end', 'SIZE', 'PASV', 'PASS', 'TYPE', 'RETR.begin'), 'fault.cut.step'))] = True
            elif k == 6:
                plan[('transfer', tape.draw(n, 'fault.transfer'))] = 'ok226_then_stall'
            elif k == 0:
                verb = tape.choice(('USER', 'PASS', 'TYPE', 'PASV', 'SIZE', 'RETR', 'LIST'), 'fault.verb')
                code = tape.choice((421, 500, 530, 550, 451, 425), 'fault.code')
                plan[('error', verb, tape.draw(2, 'fault.occ'))] = code
            else:
                mode = ('data_reset', 'negative_completion', 'no_completion', 'ok226_then_reset', 'data_reset')[k - 1]
                plan[('transfer', tape.draw(n, 'fault.transfer'))] = mode
    elif tape.chance(1, 5, 'slow'):
        plan[('transfer', tape.draw(n, 'slow.transfer'))] = 'slow'
    return fetches, user, pw, plan


def execute(tape, r, fetches, user, pw, plan, files, seg_mode=None, vary_latency=True, timeout=30.0):
    h = H()
    h.r = r
    h.tape = tape
    h.plan = plan
    h.stape = Tape(plan.get('shape_seed', 0))      # server-side shapes: identical in every re-run of the same script
    h.files = files
    h.multi_ok = True
    h.timeout = timeout
    h.unexpected_verbs = []
    h.transfers = []
    h.listing_mlsd = (b'type=file;size=10;modify=20180101000000; a.txt\r\ntype=dir;modify=20180101000000; sub\r\n'
                      b'Type=cdir;Modify=19990101000000; .\r\n')
    h.listing_list = (b'-rw-r--r--   1 ftp  ftp        10 Jan 01  2018 a.txt\r\ndrwxr-xr-x   2 ftp  ftp      4096 Jan 01  2018 sub\r\n')
    LogControlStream.log = replies = []
    outcomes = []
    sends = []
    simset.set_tape(tape)
    env = SimEnv(tape, max_callbacks=400_000, max_vtime=100_000.0, vary_latency=vary_latency)
    try:
        with env:
            loop, net = env.loop, env.net
            h.loop = loop
            if seg_mode is not None:
                net.seg_modes = (seg_mode,)
            net.add_host('ftp.test', '10.0.1.1')
            server = FTPServer(h, net, tape)
            resolver = Resolver()
            resolver.dns_python_enabled = False
            pool = ConnectionPool(resolver=resolver, connection_factory=functools.partial(
                Connection, timeout=timeout, connect_timeout=timeout))
            client = FTPClient(connection_pool=pool)

            @asyncio.coroutine
            def one(i, fx):
                out = {'i': i, 'kind': fx['kind']}
                h.current_fetch = i
                auth = ''
                if user is not None:
                    auth = '%s:%s@' % (user, pw)
                url = 'ftp://%sftp.test%s' % (auth, fx['path'])
                out['url'] = url
                f = io.BytesIO()
                try:
                    request = FTPRequest(url)
                except ValueError as e:
                    out['error'] = 'URL:' + type(e).__name__
                    return out
                out['file_path'] = request.file_path
                try:
                    with client.session() as session:
                        session.event_dispatcher.add_listener(session.Event.control_send_data, sends.append)
                        # what the session tells its listeners (the WARC recorder archives the transfer on this event)
                        session.event_dispatcher.add_listener(session.Event.end_transfer, lambda *a, **k: out.__setitem__('end_transfer_announced', True))
                        if fx['kind'] == 'file':
                            yield from session.start(request)
                            yield from session.download(f)
                        else:
                            yield from session.start_listing(request)
                            resp = yield from session.download_listing(f)
                            out['files'] = [e.name for e in resp.files]
                        out['ok'] = True
                except (NetworkError, ProtocolError, ServerError) as e:
                    out['error'] = type(e).__name__
                    out['error_msg'] = str(e)[:160]
                except (SimDeadlock, SimBudgetExceeded):
                    raise
                except Exception as e:
                    out['error'] = 'OTHER:' + type(e).__name__
                    out['error_msg'] = repr(e)[:200]
                try:
                    out['body'] = f.getvalue()
                except ValueError:
                    out['body'] = b''       # the listing parser's TextIOWrapper closed the buffer
                return out

            @asyncio.coroutine
            def main():
                for i, fx in enumerate(fetches):
                    o = yield from one(i, fx)
                    outcomes.append(o)
                    yield from asyncio.sleep(0.01)

            try:
                env.run(main())
            except SimDeadlock as e:
                outcomes.append({'i': len(outcomes), 'error': 'HANG', 'error_msg': '%s; %s' % (e, ' | '.join(task_stacks(loop)))})
            except SimBudgetExceeded as e:
                outcomes.append({'i': len(outcomes), 'error': 'HANG', 'error_msg': str(e)})
            r.sim_time += loop.time()
            r.callbacks += loop.callbacks
            r.events.extend(net.events)
            h.server = server
            h.split_reply = any(len(c.delivery_offsets) > 3 for c in net.conns)
    finally:
        simset.set_tape(None)
        LogControlStream.log = None
    return outcomes, h, replies, sends


def judge(r, fetches, outcomes, h, replies, sends, files, label=''):
    srv = h.server
    # (a) one line per command the session issued
    lines = [ln for s in srv.sessions for ln in s.lines]
    rest = [s.buf for s in srv.sessions if s.buf]
    if len(lines) != len(sends) or rest:
        extra = [ln for ln in lines if ln + b'\r\n' not in sends][:3]
        r.violate(P, 'command-injection', 'lines!=commands',
                  'the session issued %d command(s) but the server received %d line(s)%s; e.g. %r; sent %r%s'
                  % (len(sends), len(lines), ' + unterminated data %r' % rest if rest else '', extra, [s[:60] for s in sends][:6], label))
    for ln in lines:
        if b'\r' in ln or b'\n' in ln:
            r.violate(P, 'command-injection', 'bare-cr-or-lf-in-line', 'command line %r contains a bare CR/LF%s' % (ln[:80], label))
    for s in sends:
        if not s.endswith(b'\r\n') or b'\r' in s[:-2] or b'\n' in s[:-2]:
            r.violate(P, 'command-injection', 'command-with-line-break', 'command bytes %r%s' % (s[:80], label))
    if h.unexpected_verbs:
        r.violate(P, 'command-injection', 'unexpected-verb', 'server received %r%s' % (h.unexpected_verbs[:3], label))
    # (b) replies read whole
    for sess in srv.sessions:
        if getattr(sess, 'out_of_grammar', False):
            continue        # a line without a code was sent: RFC 959 gives no assembly for it, only the completion oracle applies
        ref, _ = refftp.assemble_replies(bytes(sess.sent))
        got = [(code, text) for cid, code, text in replies if cid == sess.conn.id]
        for i, (code, text) in enumerate(got):
            if i >= len(ref):
                r.violate(P, 'reply-assembly', 'more-replies-than-sent', 'client assembled %d replies on connection %d, server sent %d%s'
                          % (len(got), sess.conn.id, len(ref), label))
                break
            rc, rlines = ref[i]
            # (a bare CR inside a line: the client shows it as a line break in the text, for every segmentation alike; the
            # statement asks for the same assembly whatever the segmentation, so only the count of CRLF-ended lines is compared)
            nclient = (text or '').count('\r\n') + 1 - sum(ln.count(b'\r') for ln in rlines)
            if code != rc or nclient != len(rlines):
                r.violate(P, 'reply-assembly', 'reply-differs', 'connection %d reply %d: client (%r, %d lines) vs reference (%r, %d lines: %r)%s'
                          % (sess.conn.id, i, code, (text or '').count('\r\n') + 1, rc, len(rlines), rlines[:4], label))
                break
    # (c) transfer completion
    for o in outcomes:
        if o.get('error') == 'HANG':
            r.violate(P, 'hang', 'client-hang', o.get('error_msg', '') + label)
            continue
        if not o.get('ok'):
            ts = [t for t in h.transfers if t['fetch'] == o['i']]
            if o.get('end_transfer_announced') and ts and not (ts[-1]['eof'] and ts[-1]['ok226'] and ts[-1]['sent_all']):
                # the fetch failed, yet the session announced the end of the transfer to its listeners (the WARC recorder writes
                # the resource record on that event): a transfer reported complete that the server never confirmed
                r.violate(P, 'incomplete-transfer-accepted', 'announced-to-listeners:' + ts[-1]['mode'],
                          'fetch %d failed (%s) but end_transfer was announced for a transfer that was %r%s' % (o['i'], o.get('error'), ts[-1], label))
            if ts and ts[-1]['mode'] == 'slow' and all(t['mode'] in ('slow', 'normal') for t in h.transfers) and not any(k[0] in ('error', 'reply') for k in h.plan if isinstance(k, tuple)):
                # nothing was wrong with this transfer: every read got data in time, the server closed and confirmed
                r.violate(P, 'good-transfer-failed', 'slow', 'fetch %d: a slow but complete transfer (gaps below the timeout) was reported as failed: %s %s%s'
                          % (o['i'], o.get('error'), (o.get('error_msg') or '')[:200], label))
            continue
        ts = [t for t in h.transfers if t['fetch'] == o['i']]
        if not ts:
            r.violate(P, 'incomplete-transfer-accepted', 'no-transfer', 'fetch %d reported success but the server never started a transfer%s' % (o['i'], label))
            continue
        t = ts[-1]
        if not (t['eof'] and t['ok226'] and t['sent_all']):
            r.violate(P, 'incomplete-transfer-accepted', t['mode'], 'fetch %d reported success although the transfer was %r%s' % (o['i'], t, label))
        elif o['kind'] == 'file':
            want = files.get(o['file_path'].encode('utf-8', 'surrogateescape'))
            if want is not None and o['body'] != want:
                r.violate(P, 'wrong-content', 'file', 'fetch %d: %d bytes, server sent %d%s' % (o['i'], len(o['body']), len(want), label))


def run(tape, prop, tier):
    r = Result()
    faults_on = tape.chance(1, 2, 'faults_on')
    r.sub = 'faults' if faults_on else 'fault-free'
    fetches, user, pw, plan = gen_script(tape, faults_on)
    rng = tape.subrng('files')
    files = {}
    import urllib.parse
    for fx in fetches:
        if fx['kind'] == 'file':
            p = urllib.parse.unquote_to_bytes(fx['path'])
            try:
                key = urllib.parse.unquote(fx['path']).encode('utf-8', 'surrogateescape')
            except Exception:
                key = p
            size = tape.choice((0, 1, 50, 5000, 70000), 'file.size')
            if size > 5000:
                r.probes['big_file'] += 1
            files[key] = bytes(rng.randrange(256) for _ in range(min(size, 997))) * (size // 997 + 1)
            files[key] = files[key][:size]
            if tape.chance(1, 6, 'file.missing'):
                del files[key]
    outcomes, h, replies, sends = execute(tape, r, fetches, user, pw, plan, files)
    judge(r, fetches, outcomes, h, replies, sends, files)
    for o in outcomes:
        r.log('fetch %s -> %s' % (o.get('url'), {k: (v if k != 'body' else len(v)) for k, v in o.items() if k not in ('url',)}))
        if o.get('ok'):
            r.probes['download_ok'] += 1
            if o['kind'] == 'listing':
                r.probes['listing'] += 1
    alltext = ''.join(fx['path'] for fx in fetches)
    if re.search(r'%0[AD]', alltext):
        r.probes['encoded_crlf_in_path'] += 1
    if user is not None and re.search(r'%0[AD]', user + pw):
        r.probes['encoded_crlf_in_login'] += 1
    if '%00' in alltext + (user or '') + (pw or ''):
        r.probes['encoded_nul'] += 1
    if len(h.server.sessions) < len([o for o in outcomes if 'file_path' in o]):
        r.probes['control_reuse'] += 1
    if h.split_reply:
        r.probes['reply_split_across_reads'] += 1
    if tape.chance(1, 5, 'metamorphic') and not r.violations and not faults_on:
        r.probes['metamorphic'] += 1
        base = None
        for mode in (0, 4):
            o2, h2, rep2, s2 = execute(tape, r, fetches, user, pw, plan, files, seg_mode=mode, vary_latency=False)
            judge(r, fetches, o2, h2, rep2, s2, files, label=' [metamorphic, segmentation mode %d]' % mode)
            sig = ([(o.get('ok'), o.get('error'), o.get('body')) for o in o2], )
            if base is None:
                base = sig
            elif sig != base:
                r.violate(P, 'segmentation-dependent', 'outcomes', 'fetch outcomes differ between whole and byte-wise delivery of the same script')
    r.workload = (fetches, user, pw, sorted((str(k), str(v)) for k, v in plan.items()))
    r.nontrivial = bool(r.probes.get('multiline_reply') or r.probes.get('encoded_crlf_in_path') or r.probes.get('encoded_crlf_in_login')
                        or r.probes.get('encoded_nul') or any(k[0] == 'transfer' for k in plan if isinstance(k, tuple)))
    r.sample = {'fetches': fetches, 'user': user, 'password': pw, 'plan': sorted((str(k), str(v)) for k, v in plan.items()),
                'outcomes': [{k: (v if k != 'body' else len(v)) for k, v in o.items()} for o in outcomes],
                'commands_received': [ln.decode('latin-1')[:60] for s in h.server.sessions for ln in s.lines][:20]}
    seen = set()
    uniq = []
    for v in r.violations:
        if (v.cls, v.sig) not in seen:
            seen.add((v.cls, v.sig))
            uniq.append(v)
    r.violations = uniq
    return r
