"""C16 (every request on the wire matches the URL being fetched, on every hop) and C18, single-visit
part (redirect follow-ups and authentication retries are bounded), DESIGN section 4.

Real: wpull.protocol.http.web.WebClient/WebSession, wpull.protocol.http.redirect.RedirectTracker, wpull.protocol.http.client,
      wpull.protocol.http.request, wpull.cookiewrapper.CookieJarWrapper + wpull.cookie.DeFactoCookiePolicy + http.cookiejar,
      wpull.processor.web.WebProcessorSession._add_referrer, wpull.url, wpull.network.{pool,connection,dns}
Stub: TCP transport, DNS (wildcard), TLS (plaintext), clock; adaptive origin servers (several hosts / schemes / ports)
"""
import asyncio
import base64
import functools
import http.cookiejar
import io
import os
import re

from simlib.env import SimEnv, SimDeadlock, SimBudgetExceeded, task_stacks
from simlib.runner import Result
from simlib import simset

import wpull.network.pool as wpool
import wpull.protocol.abstract.client as wabs
import wpull.protocol.abstract.stream as wastream
import wpull.protocol.http.web as wweb
from wpull.network.pool import ConnectionPool
from wpull.proxy.client import HTTPProxyConnectionPool
from wpull.network.connection import Connection, SSLConnection
from wpull.network.dns import Resolver
from wpull.errors import NetworkError, ProtocolError
from wpull.protocol.http.client import Client as HTTPClient
from wpull.protocol.http.request import Request
from wpull.protocol.http.web import WebClient
from wpull.protocol.http.redirect import RedirectTracker
from wpull.cookiewrapper import CookieJarWrapper
from wpull.cookie import DeFactoCookiePolicy
from wpull.processor.web import WebProcessorSession
from wpull.pipeline.item import URLRecord

simset.inject(wpool, wabs, wastream, wweb)

BUDGETS = {'C16': (45, 900, 100), 'C18': (45, 900, 100)}
LEVELS = {'C16': 'exploration', 'C18': 'exploration'}
PROBES = {
    'C16': ['redirect.301', 'redirect.302', 'redirect.303', 'redirect.307', 'redirect.308', 'cross_host_redirect', 'cross_scheme_redirect',
            'repeat_redirect_cross_host', 'userinfo_url', 'idn_host', 'ipv6_host', 'ipv4_host', 'nondefault_port', 'cookie_set',
            'app_layer', 'app_layer_with_header_option', 'cookie_sent', 'foreign_domain_cookie', 'domain_cookie_from_host_without_domain', 'auth_challenge', 'auth_sent', 'referer_https_to_http', 'encoded_path',
            'relative_location', 'keepalive_reuse', 'proxy', 'proxy_absolute_form', 'proxy_connect', 'idle_close', 'followup_visit', 'referrer_with_userinfo', 'proxy_connect_refused'],
    'C18': ['redirect_cycle', 'unbounded_chain', 'limit_reached', 'perpetual_401', 'missing_location', 'bad_location', 'max_redirect_0',
            'server_5xx', 'reset', 'stall_timeout', 'auth_retry'],
}
_COMMON = {
    'components': {'real': ['wpull.protocol.http.web.WebClient/WebSession', 'RedirectTracker', 'wpull.protocol.http.client/stream/request',
                            'CookieJarWrapper + DeFactoCookiePolicy + http.cookiejar', 'WebProcessorSession._add_referrer',
                            'wpull.url.URLInfo/urljoin', 'wpull.network pool/connection/dns', 'HTTPProxyConnectionPool (one variant)',
                            'whole application incl. the request factory of --header/--referer (application layer, 1 run in 12 of C16)'],
                   'stub': ['TCP transport', 'wildcard DNS', 'TLS (plaintext stub)', 'clock', 'adaptive origin servers']},
    'assumptions': ['the visit loop of WebProcessorSession._process_loop is replicated by the harness without URL filters',
                    'expected request targets are known by construction (canonical parts + spelling noise), not via wpull\'s normaliser',
                    'option-level credentials (--http-user) are not host-bound; only URL-embedded credentials are judged for leaks'],
}
INFO = {
    'C16': dict(_COMMON, rule='workload = start URL (scheme, host kind, port, user-info, path/query pieces, spelling noise, referrer) + '
                'adaptive server behaviour per hop (redirect code/target/spelling, Set-Cookie kinds, 401, final) ; non-trivial iff the '
                'visit has >= 2 hops or cookies/credentials are in play; distinct by the full drawn workload'),
    'C18': dict(_COMMON, rule='workload = adversarial strategy (cycle, unbounded chain, mixed codes, missing/bad Location, perpetual 401/5xx, '
                'reset, stall) x max_redirect in {0,1,2,5,20}; non-trivial iff the server would never stop by itself; distinct by workload'),
}

ORIGINS = [
    # (scheme, host as given in URLs, canonical Host header host, ip, port)
    ('http', 'a.test', 'a.test', '10.0.2.1', 80),
    ('http', 'b.test', 'b.test', '10.0.2.2', 80),
    ('https', 'b.test', 'b.test', '10.0.2.2', 443),
    ('http', 'c.test', 'c.test', '10.0.2.3', 8080),
    ('http', 'sub.b.test', 'sub.b.test', '10.0.2.4', 80),
    ('http', 'b\u00fccher.test', 'xn--bcher-kva.test', '10.0.2.5', 80),
    ('http', '10.0.2.6', '10.0.2.6', '10.0.2.6', 80),
    ('http', '[fd00::6]', '[fd00::6]', 'fd00::6', 80),
    ('https', 'c.test', 'c.test', '10.0.2.3', 8443),
    ('http', 'd.test', 'd.test', '10.0.2.7', 443),       # an explicit port that is the OTHER web scheme's default
    ('https', 'd.test', 'd.test', '10.0.2.7', 80),
    # hosts without a registrable domain: an address that shares its last octets with another, and two single-label names
    ('http', '10.9.2.6', '10.9.2.6', '10.9.2.6', 80),
    ('http', 'intranet', 'intranet', '10.0.2.8', 80),
    ('http', 'wiki', 'wiki', '10.0.2.9', 80),
]
DEFAULT_PORT = {'http': 80, 'https': 443}

# path pieces: (as written in a URL, expected on the wire)
PIECES = [('p', 'p'), ('dir', 'dir'), ('a.html', 'a.html'), ('a b', 'a%20b'), ('caf\u00e9', 'caf%C3%A9'), ('x%2Fy', 'x%2Fy'),
          ('q%3fr', 'q%3Fr'), ('semi;v=1', 'semi;v=1'), ('%E2%98%83', '%E2%98%83'), ('tilde~', 'tilde~')]
QUERIES = [(None, None), ('a=1', 'a=1'), ('a=1&b=two', 'a=1&b=two'), ('q=a b', 'q=a+b'), ('u=%2F%3D', 'u=%2F%3D'), ('k', 'k')]


class Target:
    """A URL known by construction: how it is spelled and what must appear on the wire."""

    def __init__(self, tape, origin=None, simple=False):
        self.origin = origin if origin is not None else tape.draw(len(ORIGINS), 'url.origin')
        self.scheme, self.host, self.host_hdr, self.ip, self.port = ORIGINS[self.origin]
        n = tape.between(0, 3, 'url.nseg')
        self.segs = [PIECES[tape.draw(3 if simple else len(PIECES), 'url.seg')] for _ in range(n)]
        self.trailing = n > 0 and tape.chance(1, 4, 'url.trailing')
        self.query = QUERIES[0] if simple else QUERIES[tape.draw(len(QUERIES), 'url.query')]
        self.userinfo = None

    @property
    def wire_target(self):
        p = '/' + '/'.join(w for _, w in self.segs) + ('/' if self.trailing else '')
        if self.query[1] is not None:
            p += '?' + self.query[1]
        return p

    @property
    def host_header(self):
        if self.port != DEFAULT_PORT[self.scheme]:
            return '%s:%d' % (self.host_hdr, self.port)
        return self.host_hdr

    def key(self):
        return (self.origin, self.wire_target)

    def path_written(self):
        return '/' + '/'.join(s for s, _ in self.segs) + ('/' if self.trailing else '')

    def spell(self, tape, base=None, allow_relative=True, noise=True):
        """Render the URL with spelling noise; relative to base when drawn and possible."""
        path = self.path_written()
        q = ('?' + self.query[0]) if self.query[0] is not None else ''
        frag = '#frag' if noise and tape.chance(1, 5, 'sp.frag') else ''
        if noise and self.segs and tape.chance(1, 5, 'sp.dot'):
            i = tape.draw(len(self.segs), 'sp.dot.i')
            segs = [s for s, _ in self.segs]
            segs.insert(i, tape.choice(('.', 'zz/..'), 'sp.dot.k'))
            path = '/' + '/'.join(segs) + ('/' if self.trailing else '')
        if base is not None and allow_relative and base.origin == self.origin and tape.chance(1, 3, 'sp.rel'):
            return path + q + frag, 'root-relative'
        if base is not None and allow_relative and base.scheme == self.scheme and tape.chance(1, 6, 'sp.schemerel'):
            return '//' + self._hostport(tape, noise) + path + q + frag, 'scheme-relative'
        scheme = self.scheme
        if noise and tape.chance(1, 6, 'sp.schemecase'):
            scheme = scheme.upper()
        ui = ''
        if self.userinfo:
            ui = '%s:%s@' % self.userinfo
        return '%s://%s%s%s%s%s' % (scheme, ui, self._hostport(tape, noise), path, q, frag), 'absolute'

    def _hostport(self, tape, noise):
        host = self.host
        if noise and tape.chance(1, 6, 'sp.hostcase') and not host.startswith('['):
            host = host.upper()
        if self.port != DEFAULT_PORT[self.scheme]:
            return '%s:%d' % (host, self.port)
        if noise and tape.chance(1, 6, 'sp.defport'):
            return '%s:%d' % (host, self.port)
        return host


class Site:
    def __init__(self, h):
        self.h = h

    def listener(self, oi):
        def accept(conn):
            return _Handler(self.h, conn, oi)
        return accept


class _Handler:
    def __init__(self, h, conn, oi):
        self.h = h
        self.oi = oi
        self.buf = b''

    def on_data(self, conn, data):
        self.buf += data
        while b'\r\n\r\n' in self.buf:
            raw, self.buf = self.buf.split(b'\r\n\r\n', 1)
            self.h.on_request(conn, self.oi, raw + b'\r\n\r\n')

    def on_eof(self, conn):
        if self.buf:
            self.h.r.violate('C16', 'malformed-request', 'trailing-bytes-without-terminator', repr(self.buf[:100]))
        conn.finish()


class _ProxyHandler:
    """HTTP proxy peer: absolute-form requests for http, CONNECT tunnels for https."""

    def __init__(self, h, conn):
        self.h = h
        self.buf = b''
        self.tunnel_oi = None

    def on_data(self, conn, data):
        h = self.h
        self.buf += data
        while b'\r\n\r\n' in self.buf:
            raw, self.buf = self.buf.split(b'\r\n\r\n', 1)
            line = raw.split(b'\r\n')[0]
            if self.tunnel_oi is None and line.startswith(b'CONNECT '):
                hp = line.split(b' ')[1].decode('latin-1')
                oi = None
                for i, (scheme, host, host_hdr, ip, port) in enumerate(ORIGINS):
                    if hp.lower() == ('%s:%d' % (host_hdr, port)).lower() and scheme == 'https':
                        oi = i
                h.connects.append(hp)
                h.r.probes['proxy_connect'] += 1
                if oi is not None and getattr(h, 'refuse_connects', 0) > 0:
                    # the proxy refuses the tunnel but keeps the connection open (503 / 407 with keep-alive)
                    h.refuse_connects -= 1
                    h.connect_refused = True
                    h.r.probes['proxy_connect_refused'] += 1
                    h.r.faults['proxy_refuses_connect'] += 1
                    conn.send(b'HTTP/1.1 %s\r\nContent-Length: 0\r\n\r\n' % h.tape.choice((b'503 Service Unavailable', b'407 Proxy Authentication Required\r\nProxy-Authenticate: Basic realm="p"', b'403 Forbidden'), 'proxy.refuse.status'), mode=0)
                    continue
                if oi is None:
                    h.r.violate('C16', 'wrong-origin', 'connect-target', 'CONNECT %r names no https origin of the site' % hp)
                    conn.send(b'HTTP/1.1 502 Bad Gateway\r\nContent-Length: 0\r\n\r\n', mode=0)
                    continue
                self.tunnel_oi = oi
                conn.send(b'HTTP/1.1 200 Connection established\r\n\r\n', mode=0)
                continue
            if self.tunnel_oi is not None:
                h.on_request(conn, self.tunnel_oi, raw + b'\r\n\r\n', proxied='tunnel')
            else:
                h.on_request(conn, None, raw + b'\r\n\r\n', proxied='plain')

    def on_eof(self, conn):
        conn.finish()


class H:
    pass


def parse_request(raw):
    """Strict parse. Returns (method, target, version, [(name, value)], errors)."""
    errors = []
    head = raw[:-4]
    lines = head.split(b'\r\n')
    m = re.fullmatch(rb'([A-Z]+) ([^ \r\n\x00]+) (HTTP/1\.[01])', lines[0])
    if not m:
        errors.append('request line %r is not METHOD SP target SP HTTP/1.x' % lines[0][:120])
        method = target = version = None
    else:
        method, target, version = (x.decode('latin-1') for x in m.groups())
    fields = []
    for ln in lines[1:]:
        if b'\r' in ln or b'\n' in ln or b'\x00' in ln:
            errors.append('header line with bare CR/LF/NUL: %r' % ln[:120])
        mm = re.fullmatch(rb'([!#$%&\'*+\-.^_`|~0-9A-Za-z]+):[ \t]*(.*?)[ \t]*', ln)
        if not mm:
            errors.append('malformed header line %r' % ln[:120])
            continue
        fields.append((mm.group(1).decode('latin-1').lower(), mm.group(2).decode('latin-1')))
        if fields[-1][0] == 'host' and re.search(r'[\s\x00-\x1f\x7f]', fields[-1][1]):
            errors.append('Host value with white space or a control character: %r' % ln[:120])
    return method, target, version, fields, errors


def run_app_layer(tape, r):
    """The whole application on a small site of two or three hosts, with user supplied header fields (--header): what the
    request factory prepares once must not carry anything of one URL into the request for another (Host above all)."""
    import shutil
    import tempfile
    from harness import crawl
    from refs import site as refsite
    sandbox = tempfile.mkdtemp(prefix='wv-c16app-%d-' % os.getpid(), dir='/dev/shm')
    cwd = os.getcwd()
    try:
        os.chdir(sandbox)
        site, starts, pages, assets, redirects = refsite.gen_site(tape, nhosts=tape.choice((2, 3), 'app.nhosts'), npages=tape.between(3, 6, 'app.npages'))
        site.finalize()
        opts = {'recursive': True, 'level': 'inf', 'page_requisites': tape.chance(1, 2, 'app.p'), 'span_hosts': True, 'tries': 2}
        extra = []
        if tape.chance(3, 4, 'app.header'):
            extra += ['--header', tape.choice(('X-Verif: yes', 'Accept-Language: en', 'X-A: 1'), 'app.header.v')]
            if tape.chance(1, 3, 'app.header2'):
                extra += ['--header', 'X-B: two']
            r.probes['app_layer_with_header_option'] += 1
        if tape.chance(1, 3, 'app.referer'):
            extra += ['--referer', 'http://elsewhere.test/from.html']
        argv = crawl.argv_for(opts, [s.url for s in starts], os.path.join(sandbox, 'db.sqlite'), extra=extra)
        out = crawl.run_app(tape, r, site, argv, tape.choice((1, 2, 3), 'app.concurrency'), sandbox)
        r.probes['app_layer'] += 1
        hosts = set()
        for e in out['server'].log:
            scheme, host, port = e['origin']
            hosts.add(host)
            want = host if port == DEFAULT_PORT.get(scheme) else '%s:%d' % (host, port)
            got = e['fields'].get('host', [])
            if len(got) != 1 or got[0].lower() != want.lower():
                r.violate('C16', 'host-field', 'stale-or-wrong:application', 'request %s %s on a connection to %s carries Host %r (options %r)'
                          % (e['method'], e['target'], want, got, extra))
                break
        if out.get('hang'):
            r.violate('C16', 'hang', 'application', out['hang'][:600])
        r.workload = ('app', [s.url for s in starts], extra, [(x.kind, x.url) for x in site.order][:40])
        r.nontrivial = len(hosts) >= 2
        r.sample = {'layer': 'application', 'argv_extra': extra, 'requests': [(e['origin'][1], e['target'], e['fields'].get('host')) for e in out['server'].log][:12]}
    finally:
        os.chdir(cwd)
        shutil.rmtree(sandbox, ignore_errors=True)
    return r


def run(tape, prop, tier):
    r = Result()
    if prop == 'C16' and tape.chance(1, 12, 'app_layer'):
        return run_app_layer(tape, r)
    adversarial = prop == 'C18' or tape.chance(1, 6, 'adversarial')
    max_redirect = tape.choice((20, 5, 2, 1, 0, 32, 45), 'max_redirect') if adversarial else tape.choice((20, 5, 3), 'max_redirect')
    use_cookies = tape.chance(3, 4, 'cookies')
    opt_login = None
    if tape.chance(1, 3 if prop == 'C18' else 4, 'opt_login'):
        # --http-user / --http-password given together, or (legal) only one of them
        opt_login = tape.choice((('optuser', 'optpass'), (None, 'optpass'), ('', 'optpass'), ('optuser', '')), 'opt_login.kind') if prop == 'C18' else tape.choice((('optuser', 'optpass'), ('optuser', 'optpass'), ('optuser', 'tok' + 'Zq9x' * 16)), 'opt_login.kind16')     # incl. a 67 character token (no header line may be broken by its encoding)
    use_proxy = prop == 'C16' and tape.chance(1, 3, 'use_proxy')
    start = Target(tape)
    if tape.chance(1, 4, 'userinfo'):
        start.userinfo = (tape.choice(('user', 'us%40er', 'u%0D%0Ax', 'caf%C3%A9'), 'ui.user'), tape.choice(('pw', 'p%3Aw', 'p%0Aw', 'k' + '0aB9' * 17), 'ui.pw'))
        r.probes['userinfo_url'] += 1
    start_url, _ = start.spell(tape, None)
    referrer = None
    if tape.chance(1, 3, 'referrer'):
        ref_t = Target(tape, simple=True)
        # (the referring page's URL may carry user:password - as wpull stores it for the parent of a link)
        ref_ui = 'refuser:refpass@' if tape.chance(1, 3, 'referrer.userinfo') else ''
        referrer = '%s://%s%s%s' % (ref_t.scheme, ref_ui, ref_t.host_header, ref_t.wire_target)
        if ref_ui:
            r.probes['referrer_with_userinfo'] += 1
    strategy = 'normal'
    if adversarial:
        strategy = tape.choice(('cycle', 'chain', 'mixed', 'missing_location', 'bad_location', 'perpetual_401', 'perpetual_5xx',
                                'reset', 'stall', 'auth_redirect_alternate'), 'strategy')
    workload = {'start': start_url, 'max_redirect': max_redirect, 'cookies': use_cookies, 'opt_login': bool(opt_login), 'proxy': use_proxy,
                'referrer': referrer, 'strategy': strategy, 'hops': []}
    r.sub = 'adversarial:' + strategy if adversarial else 'normal'
    h = H()
    h.r = r
    h.tape = tape
    h.expected = start            # Target expected for the next request
    h.requests = []               # (origin index, parsed request, conn id)
    h.cookies = {}                # name -> (setter origin host, domain attr or None, acceptable?)
    h.challenged = set()          # host headers that issued a 401
    h.cred_hosts = set()
    h.prev_was_401_for = None
    h.hops = 0
    h.chain_len = tape.between(0, 4, 'chain.len') if not adversarial else 0
    h.done = False
    h.auth_retries = {}
    h.connects = []
    h.visited_origins = []
    h.conn_reqs = {}
    h.challenge_style = tape.draw(3, 'challenge.style')
    h.refuse_connects = 0
    h.connect_refused = False
    if use_proxy:
        r.probes['proxy'] += 1
        if tape.chance(1, 4, 'proxy.refuse_connect'):
            h.refuse_connects = tape.between(1, 2, 'proxy.refuse_connect.n')
    h.consecutive_auth = 0
    h.last_sched = None
    if start.userinfo:
        h.cred_hosts.add(start.host_header)
    simset.set_tape(tape)
    env = SimEnv(tape, max_callbacks=400_000, max_vtime=1_000_000.0)
    result = {}

    def respond(conn, body=b'ok', status=200, reason='OK', headers=(), close=False):
        hd = ['HTTP/1.1 %d %s' % (status, reason), 'Content-Length: %d' % len(body)]
        hd += ['%s: %s' % kv for kv in headers]
        if close:
            hd.append('Connection: close')
        conn.send(('\r\n'.join(hd) + '\r\n\r\n').encode('latin-1') + body)
        if close:
            conn.finish()
        elif tape.chance(1, 3 if use_proxy else 6, 'idle_close'):
            # keep-alive promised, but the peer (origin or proxy) closes the idle connection before the next request
            after = tape.choice((0.0, 0.05, 0.3, 1.0, 3.0), 'idle_close.after')
            seen = h.conn_reqs.get(conn.id, 0)

            def idle_timeout():
                if h.conn_reqs.get(conn.id, 0) == seen and not conn.server_closed:
                    r.probes['idle_close'] += 1
                    r.faults['peer_closes_idle_connection'] += 1
                    conn.finish()
            if after:
                env.loop.call_later(after, idle_timeout)
            else:
                idle_timeout()

    def on_request(conn, oi, raw, proxied=None):
        method, target, version, fields, errors = parse_request(raw)
        exp = h.expected
        hop = h.hops
        h.hops += 1
        if proxied == 'plain':
            # request to a proxy without tunnel: the target must be the absolute URL
            r.probes['proxy_absolute_form'] += 1
            m = re.match(r'^http://([^/]+)(/.*)$', target or '')
            if not m:
                r.violate('C16', 'wrong-target', 'origin-form-to-proxy', 'hop %d: request to the proxy has target %r, expected an absolute http URL' % (hop, target))
                oi = exp.origin if exp is not None else 0
            else:
                hostport, target = m.group(1), m.group(2)
                oi = None
                for i, (scheme, host, host_hdr, ip, port) in enumerate(ORIGINS):
                    hp = host_hdr if port == 80 else '%s:%d' % (host_hdr, port)
                    if scheme == 'http' and hostport.lower() == hp.lower():
                        oi = i
                if oi is None:
                    r.violate('C16', 'wrong-origin', 'absolute-url-host', 'hop %d: absolute URL names %r which is no http origin of the site' % (hop, hostport))
                    oi = exp.origin if exp is not None else 0
        origin = ORIGINS[oi]
        fd = {}
        for n, v in fields:
            fd.setdefault(n, []).append(v)
        r.log('t=%.3f hop %d -> %s://%s:%d %r %r' % (env.loop.time(), hop, origin[0], origin[2], origin[4], raw.split(b'\r\n')[0][:120],
                                                 [(n, v[:50]) for n, v in fields if n in ('host', 'authorization', 'cookie', 'referer')]))
        h.requests.append((oi, method, target, fields, conn.id))
        h.conn_reqs[conn.id] = h.conn_reqs.get(conn.id, 0) + 1
        if oi not in h.visited_origins:
            h.visited_origins.append(oi)
        for e in errors:
            r.violate('C16', 'malformed-request', 'grammar', 'hop %d: %s' % (hop, e))
        hop_kind = h.last_sched or 'first'
        if exp is not None:
            if oi != exp.origin:
                r.violate('C16', 'wrong-origin', hop_kind, 'hop %d: request for %s arrived at %s://%s:%d, expected %s://%s:%d'
                          % (hop, exp.wire_target, origin[0], origin[2], origin[4], exp.scheme, exp.host_hdr, exp.port))
            elif target != exp.wire_target:
                r.violate('C16', 'wrong-target', hop_kind, 'hop %d: request target %r, expected %r' % (hop, target, exp.wire_target))
            hosts = fd.get('host', [])
            want_host = '%s:%d' % (origin[2], origin[4]) if origin[4] != DEFAULT_PORT[origin[0]] else origin[2]
            if len(hosts) != 1:
                r.violate('C16', 'host-field', 'count:' + hop_kind, 'hop %d: %d Host fields %r' % (hop, len(hosts), hosts))
            elif hosts[0].lower() != want_host.lower():
                r.violate('C16', 'host-field', 'stale-or-wrong:' + hop_kind, 'hop %d (%s): Host %r on a connection to %s (request target %r)'
                          % (hop, hop_kind, hosts[0], want_host, target))
        # the login for the proxy is for the proxy: a request that reaches an origin (through a tunnel, or directly) must not carry it
        if proxied != 'plain' and fd.get('proxy-authorization'):
            r.violate('C16', 'credential-leak', 'proxy-authorization-to-origin:' + hop_kind,
                      'hop %d (%s): Proxy-Authorization %r reached the origin %s (%s)' % (hop, hop_kind, fd['proxy-authorization'][0][:40], origin[2], proxied or 'direct'))
        # credentials
        auth = fd.get('authorization', [])
        host_here = '%s:%d' % (origin[2], origin[4]) if origin[4] != DEFAULT_PORT[origin[0]] else origin[2]
        if auth:
            r.probes['auth_sent'] += 1
            if start.userinfo and not opt_login and host_here != start.host_header and host_here not in h.cred_hosts:
                r.violate('C16', 'credential-leak', 'authorization:' + hop_kind,
                          'hop %d (%s): Authorization %r sent to %s; credentials were given in the URL of %s only'
                          % (hop, hop_kind, auth[0][:40], host_here, start.host_header))
            if len(auth) > 1:
                r.violate('C16', 'malformed-request', 'duplicate-authorization', 'hop %d: %r' % (hop, auth))
        # cookies
        for cv in fd.get('cookie', []):
            r.probes['cookie_sent'] += 1
            for part in cv.split(';'):
                name = part.strip().split('=', 1)[0]
                info = h.cookies.get(name)
                if info is None:
                    r.violate('C16', 'cookie-leak', 'unknown-cookie', 'hop %d: cookie %r was never set by a server' % (hop, part.strip()[:60]))
                    continue
                setter, domain, ok = info
                here = origin[2]
                if domain is None:
                    allowed = here == setter
                else:
                    d = domain.lstrip('.')
                    # (back to the host that set it is never a leak, whatever a cookie specification says about storing it)
                    allowed = here == setter or (ok and (here == d or here.endswith('.' + d)))
                if not allowed:
                    r.violate('C16', 'cookie-leak', ('host-only' if domain is None else 'domain') + ':' + hop_kind,
                              'hop %d (%s): cookie %s set by %s (Domain=%r) sent to %s' % (hop, hop_kind, name, setter, domain, here))
        # referer
        for rv in fd.get('referer', []):
            # RFC 7231 5.5.2: no userinfo (nor fragment) in Referer - a login of one host must not travel to another
            mref = re.match(r'^[a-z]+://[^/@]*@([^/:]*)', rv, re.I)
            if mref and mref.group(1).lower() != origin[2].lower():
                r.violate('C16', 'credential-leak', 'referer-userinfo:' + hop_kind, 'hop %d: Referer %r carries the user:password of the referring URL (sent to %s)'
                          % (hop, rv[:80], origin[2]))
            # judged on the first hop only, where the processor decides about the referrer; what a redirect
            # hop does with the Referer field is not part of the property statement
            if hop == 0 and rv.lower().startswith('https://') and origin[0] == 'http':
                r.violate('C16', 'referer-leak', 'https-to-http:' + hop_kind, 'hop %d: Referer %r sent over http' % (hop, rv[:80]))
        if len(fd.get('referer', [])) > 1 or len(fd.get('cookie', [])) > 1 or len(fd.get('user-agent', [])) > 1:
            r.violate('C16', 'malformed-request', 'duplicate-field', 'hop %d: %r' % (hop, {k: v for k, v in fd.items() if len(v) > 1}))
        # ---- decide the answer
        hops_desc = {'hop': hop, 'origin': oi, 'target': target}
        workload['hops'].append(hops_desc)
        headers = []
        if use_cookies and tape.chance(1, 3, 'setcookie'):
            k = tape.draw(4, 'setcookie.kind')
            name = 'c%d' % len(h.cookies)
            if k == 0:
                headers.append(('Set-Cookie', '%s=v%d; Path=/' % (name, hop)))
                h.cookies[name] = (origin[2], None, True)
            elif k == 1 and origin[2].endswith('b.test'):
                headers.append(('Set-Cookie', '%s=v%d; Domain=.b.test; Path=/' % (name, hop)))
                h.cookies[name] = (origin[2], '.b.test', True)
            elif k == 1 and (re.fullmatch(r'[0-9.]+', origin[2]) or '.' not in origin[2]):
                # a Domain attribute from a host that has no domain: part of an IP address, or '.local' (the suffix older cookie
                # specifications gave every single-label name). RFC 6265 5.3: no domain-match, the cookie is ignored.
                dom = '.' + '.'.join(origin[2].split('.')[-2:]) if '.' in origin[2] else tape.choice(('.local', 'local'), 'setcookie.local')
                headers.append(('Set-Cookie', '%s=v%d; Domain=%s; Path=/' % (name, hop, dom)))
                h.cookies[name] = (origin[2], dom, False)
                r.probes['domain_cookie_from_host_without_domain'] += 1
            elif k == 2:
                headers.append(('Set-Cookie', '%s=v%d; Domain=.evil.test; Path=/' % (name, hop)))
                h.cookies[name] = (origin[2], '.evil.test', False)
                r.probes['foreign_domain_cookie'] += 1
            else:
                headers.append(('Set-Cookie', '%s="quoted v%d"; Path=/; HttpOnly' % (name, hop)))
                h.cookies[name] = (origin[2], None, True)
            r.probes['cookie_set'] += 1
            hops_desc['set_cookie'] = headers[-1][1]

        def redirect(code, tgt, spell_noise=True, raw_location=None):
            if raw_location is None and tgt is None:
                loc = None              # a redirect status without a Location field
            elif raw_location is None:
                loc, kind = tgt.spell(tape, exp, noise=spell_noise)
                if kind != 'absolute':
                    r.probes['relative_location'] += 1
            else:
                loc = raw_location
            r.probes['redirect.%d' % code] += 1
            if tgt is not None and exp is not None:
                if tgt.host_hdr != exp.host_hdr:
                    r.probes['cross_host_redirect'] += 1
                    if code in (307, 308):
                        r.probes['repeat_redirect_cross_host'] += 1
                if tgt.scheme != exp.scheme:
                    r.probes['cross_scheme_redirect'] += 1
            hops_desc['answer'] = '%d -> %s' % (code, loc)
            h.expected = tgt
            h.last_sched = 'after-%d' % code
            hd = list(headers)
            if loc is not None:
                hd.append(('Location', loc))
            respond(conn, b'moved', code, 'Redirect', hd, close=tape.chance(1, 5, 'redir.close'))

        def final(status=200):
            hops_desc['answer'] = str(status)
            h.expected = None
            h.done = True
            respond(conn, b'final body', status, 'OK' if status == 200 else 'Err', headers)

        if strategy == 'normal':
            had_auth = bool(auth)
            if (opt_login or start.userinfo) and not had_auth and tape.chance(1, 3, 'challenge') and h.prev_was_401_for != exp:
                r.probes['auth_challenge'] += 1
                h.challenged.add(host_here)
                h.cred_hosts.add(host_here) if opt_login else None
                hops_desc['answer'] = '401'
                h.prev_was_401_for = exp
                h.last_sched = 'auth-retry'
                respond(conn, b'auth required', 401, 'Unauthorized', headers + [('WWW-Authenticate', 'Basic realm="x"')])
                # expected next: same URL again (with Authorization) if credentials exist, else the visit ends
                return
            if hop - len(h.challenged) < h.chain_len:
                code = tape.choice((301, 302, 303, 307, 308), 'redir.code')
                if use_proxy and h.visited_origins and tape.chance(1, 2, 'redir.revisit'):
                    # back to an origin visited earlier: its pooled connection (direct or through the proxy) is reused, or
                    # found closed by the peer and re-established
                    redirect(code, Target(tape, origin=h.visited_origins[tape.draw(len(h.visited_origins), 'redir.revisit.o')]))
                else:
                    redirect(code, Target(tape))
            else:
                final(200 if not tape.chance(1, 8, 'final404') else 404)
        elif strategy == 'cycle':
            r.probes['redirect_cycle'] += 1
            redirect(tape.choice((301, 302, 307), 'redir.code'), exp if tape.chance(1, 2, 'cycle.self') else start, spell_noise=False)
        elif strategy in ('chain', 'mixed'):
            r.probes['unbounded_chain'] += 1
            code = 302 if strategy == 'chain' else tape.choice((301, 302, 303, 307, 308), 'redir.code')
            redirect(code, Target(tape, simple=True))
        elif strategy == 'missing_location':
            r.probes['missing_location'] += 1
            if hop == 0 and tape.chance(1, 2, 'ml.first'):
                redirect(302, Target(tape, simple=True))
            else:
                h.expected = None
                redirect(tape.choice((301, 302, 307), 'redir.code'), None, raw_location=None)
        elif strategy == 'bad_location':
            r.probes['bad_location'] += 1
            h.expected = None
            # ('[fd00::6%a b]': ipaddress accepts any text as the zone of an IPv6 address; a listener answers at that address, so
            # whatever the client makes of it reaches the request oracle)
            bad = tape.choice(('http://[bad', 'http://', '::::', 'http://a.test:99999/', '', 'http://[fd00::6%a b]/landing', 'http://[fd00::6%a b]:80/x?y',
                               # percent-encoded delimiters and line breaks in the HOST part: not a host name at all
                               'http://b.test%0D%0AX-Smuggled/y', 'http://b.test%20x/', 'http://a.test%2Fevil/', 'http://a.test%3A8080/', 'http://c.test%00/'), 'badloc')
            redirect(tape.choice((301, 302, 307), 'redir.code'), None, raw_location=bad)
            h.expected = None
        elif strategy == 'perpetual_401':
            r.probes['perpetual_401'] += 1
            hops_desc['answer'] = '401'
            h.last_sched = 'auth-retry'
            # the challenge may differ every time (a Digest nonce, a realm with a counter): still the same question
            challenge = ('Basic realm="x"', 'Basic realm="x%d"' % hop, 'Digest realm="x", qop="auth", nonce="n%d", opaque="o"' % hop)[h.challenge_style]
            respond(conn, b'no', 401, 'Unauthorized', headers + [('WWW-Authenticate', challenge)])
        elif strategy == 'perpetual_5xx':
            r.probes['server_5xx'] += 1
            final(tape.choice((500, 503), '5xx'))
        elif strategy == 'reset':
            r.probes['reset'] += 1
            r.faults['reset'] += 1
            if tape.chance(1, 2, 'reset.partial'):
                conn.send(b'HTTP/1.1 200 OK\r\nContent-Le')
            conn.reset()
            h.expected = None
        elif strategy == 'stall':
            r.probes['stall_timeout'] += 1
            r.faults['stall'] += 1
            if tape.chance(1, 2, 'stall.partial'):
                conn.send(b'HTTP/1.1 200 OK\r\nContent-Length: 100\r\n\r\npartial')
            h.expected = None
        elif strategy == 'auth_redirect_alternate':
            r.probes['perpetual_401'] += 1
            if not auth:
                hops_desc['answer'] = '401'
                h.last_sched = 'auth-retry'
                respond(conn, b'no', 401, 'Unauthorized', headers + [('WWW-Authenticate', 'Basic realm="x"')])
            else:
                # (a 307/308 hop replays the request with its login, so the next hop can be challenged and retried again:
                # a cycle of redirect - 401 - retry - redirect ... must still end at the redirect limit)
                code = tape.choice((302, 307, 308, 307), 'ara.code')
                redirect(code, Target(tape, origin=oi if tape.chance(2, 3, 'ara.same_origin') else None, simple=True))

    h.on_request = on_request
    try:
        with env:
            loop, net = env.loop, env.net
            net.wildcard_dns = None
            site = Site(h)
            for oi, (scheme, host, host_hdr, ip, port) in enumerate(ORIGINS):
                net.add_host(host_hdr, ip)
                net.add_host(host.strip('[]'), ip)
                net.listen(ip, port, site.listener(oi))
            for zone_ip in ('fd00::6%a b',):
                net.listen(zone_ip, 80, site.listener(7))
            resolver = Resolver()
            resolver.dns_python_enabled = False
            import ssl as _ssl
            ctx = _ssl.SSLContext(_ssl.PROTOCOL_TLS_CLIENT)
            ctx.check_hostname = False
            ctx.verify_mode = _ssl.CERT_NONE
            if use_proxy:
                net.add_host('proxy.test', '10.0.2.99')
                net.listen('10.0.2.99', 3128, lambda conn: _ProxyHandler(h, conn))
                pool = HTTPProxyConnectionPool(
                    ('proxy.test', 3128), resolver=resolver, ssl_context=ctx,
                    authentication=('pu', 'pp') if tape.chance(1, 3, 'proxy.auth') else None,
                    connection_factory=functools.partial(Connection, timeout=30.0, connect_timeout=30.0),
                    ssl_connection_factory=functools.partial(SSLConnection, timeout=30.0, connect_timeout=30.0, ssl_context=ctx))
            else:
                pool = ConnectionPool(
                    resolver=resolver,
                    connection_factory=functools.partial(Connection, timeout=30.0, connect_timeout=30.0),
                    ssl_connection_factory=functools.partial(SSLConnection, timeout=30.0, connect_timeout=30.0, ssl_context=ctx))
            http_client = HTTPClient(connection_pool=pool)

            def request_factory(*a, **k):
                req = Request(*a, **k)
                req.fields['User-Agent'] = 'Wpull/verif'
                req.fields['Accept-Encoding'] = 'gzip, deflate'
                return req
            jar = None
            if use_cookies:
                cj = http.cookiejar.CookieJar()
                cj.set_policy(DeFactoCookiePolicy(cookie_jar=cj))
                jar = CookieJarWrapper(cj)
            web_client = WebClient(http_client, request_factory=request_factory,
                                   redirect_tracker_factory=functools.partial(RedirectTracker, max_redirects=max_redirect),
                                   cookie_jar=jar)

            @asyncio.coroutine
            def visit():
                try:
                    request = request_factory(start_url)
                except ValueError as e:
                    result['error'] = 'URL:' + repr(e)
                    return
                rec = URLRecord()
                rec.url = request.url_info.url
                rec.parent_url = referrer
                if referrer and not request.fields.get('Referer'):
                    WebProcessorSession._add_referrer(request, rec)
                if opt_login:
                    request.username, request.password = opt_login
                session = web_client.session(request)
                n = 0
                try:
                    with session:
                        while not session.done():
                            n += 1
                            response = yield from session.start()
                            yield from session.download(io.BytesIO())
                            result['last_status'] = response.status_code
                    result['ok'] = True
                except (NetworkError, ProtocolError) as e:
                    result['error'] = type(e).__name__ + ': ' + str(e)[:100]
                    result['error_type'] = 'ProtocolError' if isinstance(e, ProtocolError) else 'NetworkError'
                except (SimDeadlock, SimBudgetExceeded):
                    raise
                except Exception as e:
                    result['error'] = 'OTHER ' + repr(e)[:200]
                    result['error_type'] = 'OTHER'
                result['loops'] = n
                h.first_visit_nreq = len(h.requests)
                # follow-up visits after a pause: pooled connections sat idle (and may have been closed by the peer)
                if prop == 'C16' and h.connect_refused and not result.get('ok'):
                    # the item whose tunnel was refused is tried again (as the crawler does): same URL, same pool
                    for _ in range(2):
                        h.expected = start
                        h.last_sched = 'retry-after-refused-connect'
                        h.done = False
                        r.probes['followup_visit'] += 1
                        req2 = request_factory(start_url)
                        if opt_login:
                            req2.username, req2.password = opt_login
                        s2 = web_client.session(req2)
                        try:
                            with s2:
                                while not s2.done():
                                    yield from s2.start()
                                    yield from s2.download(io.BytesIO())
                            break
                        except (NetworkError, ProtocolError) as e:
                            result['followup_error'] = type(e).__name__
                elif prop == 'C16' and result.get('ok') and h.visited_origins and tape.chance(1, 3, 'followup'):
                    for _ in range(tape.between(1, 2, 'followup.n')):
                        yield from asyncio.sleep(tape.choice((0.2, 2.0, 10.0, 45.0), 'followup.pause'))
                        tgt = Target(tape, origin=h.visited_origins[tape.draw(len(h.visited_origins), 'followup.origin')], simple=True)
                        h.expected = tgt
                        h.last_sched = 'follow-up-visit'
                        h.done = False
                        r.probes['followup_visit'] += 1
                        req2 = request_factory('%s://%s%s' % (tgt.scheme, tgt.host_header, tgt.wire_target))
                        if opt_login:
                            req2.username, req2.password = opt_login
                        s2 = web_client.session(req2)
                        try:
                            with s2:
                                while not s2.done():
                                    yield from s2.start()
                                    yield from s2.download(io.BytesIO())
                        except (NetworkError, ProtocolError) as e:
                            result['followup_error'] = type(e).__name__
                            break

            try:
                env.run(visit())
            except SimDeadlock as e:
                r.violate('C18', 'no-termination', 'deadlock:' + strategy, '%s; %s' % (e, ' | '.join(task_stacks(loop))))
            except SimBudgetExceeded as e:
                r.violate('C18', 'no-termination', 'budget:' + strategy, '%s after %d requests' % (e, len(h.requests)))
            r.sim_time = loop.time()
            r.callbacks = loop.callbacks
            r.events = net.events
            if len({c for *_, c in h.requests}) < len(h.requests):
                r.probes['keepalive_reuse'] += 1
    finally:
        simset.set_tape(None)
    # ---- C18: bounded work for one visit
    nreq = getattr(h, 'first_visit_nreq', len(h.requests))
    # authentication retries: at most one in a row for the same URL
    auth_retries = 0
    answers = [hp.get('answer', '') for hp in workload['hops']]
    keys = [(oi, target) for oi, method, target, fields, cid in h.requests]
    for i in range(1, len(keys)):
        if keys[i] == keys[i - 1] and i - 1 < len(answers) and answers[i - 1] == '401':
            auth_retries += 1
    if auth_retries:
        r.probes['auth_retry'] += 1
    redirect_followups = nreq - 1 - auth_retries
    if redirect_followups > max_redirect:
        r.violate('C18', 'redirect-limit-exceeded', strategy, '%d redirect follow-ups with --max-redirect %d (%d requests, %d auth retries)'
                  % (redirect_followups, max_redirect, nreq, auth_retries))
    # two authentication retries in a row for one URL
    for i in range(2, len(keys)):
        if keys[i] == keys[i - 1] == keys[i - 2] and answers[i - 1] == '401' and answers[i - 2] == '401':
            r.violate('C18', 'auth-retry-unbounded', strategy, 'URL %r was retried after a 401 twice in a row in one visit' % (keys[i][1],))
            break
    if strategy in ('cycle', 'chain', 'mixed') and 'ok' in result:
        r.violate('C18', 'redirect-limit-exceeded', 'visit-succeeded:' + strategy, 'endless redirects but the visit ended successfully: %r' % result)
    if strategy in ('cycle', 'chain', 'mixed') and result.get('error_type') == 'ProtocolError' and nreq == 1 + max_redirect:
        r.probes['limit_reached'] += 1
    if strategy in ('cycle', 'chain', 'mixed') and result and result.get('error_type') not in ('ProtocolError', None) and 'URL:' not in result.get('error', ''):
        r.violate('C18', 'wrong-error-kind', strategy, 'redirect limit must end the visit with a protocol error, got %r' % (result,))
    if max_redirect == 0:
        r.probes['max_redirect_0'] += 1
    if result.get('error_type') == 'OTHER':
        r.log('non-protocol exception: %s' % result.get('error'))
    # ---- probes
    if start.host_hdr.startswith('xn--') or any(ORIGINS[oi][2].startswith('xn--') for oi, *_ in h.requests):
        r.probes['idn_host'] += 1
    if any(ORIGINS[oi][2].startswith('[') for oi, *_ in h.requests):
        r.probes['ipv6_host'] += 1
    if any(re.fullmatch(r'[0-9.]+', ORIGINS[oi][2]) for oi, *_ in h.requests):
        r.probes['ipv4_host'] += 1
    if any(ORIGINS[oi][4] != DEFAULT_PORT[ORIGINS[oi][0]] for oi, *_ in h.requests):
        r.probes['nondefault_port'] += 1
    if referrer and referrer.startswith('https://') and start.scheme == 'http':
        r.probes['referer_https_to_http'] += 1
    if any('%' in (t or '') for _, _, t, _, _ in h.requests):
        r.probes['encoded_path'] += 1
    r.workload = workload
    r.nontrivial = (nreq >= 2 or bool(h.cookies) or bool(start.userinfo)) if prop == 'C16' else strategy != 'normal'
    r.sample = {'workload': workload, 'result': result, 'requests': [(ORIGINS[oi][2], t) for oi, _, t, _, _ in h.requests][:12]}
    r.log('result %r' % (result,))
    seen = set()
    uniq = []
    for v in r.violations:
        if (v.prop, v.cls, v.sig) not in seen:
            seen.add((v.prop, v.cls, v.sig))
            uniq.append(v)
    r.violations = uniq
    return r
