"""C12 - connection pool safety and liveness under every interleaving, with connect failures,
remote closes and cancellations (DESIGN section 4, C12).

Real: wpull.network.pool.{ConnectionPool,HostPool,HappyEyeballsConnection}, wpull.network.connection.Connection,
      wpull.network.dns.Resolver (system-resolver path), wpull.protocol.abstract.client.BaseSession (via HTTP Client)
Stub: TCP transport, DNS answers, clock (simlib)
"""
import asyncio
import io

from simlib.env import SimEnv, SimDeadlock, SimBudgetExceeded, task_stacks
from simlib.runner import Result
from simlib import simset
from simlib.net import Refuse

import wpull.network.pool as wpool
import wpull.protocol.abstract.client as wabs
from wpull.network.pool import ConnectionPool
from wpull.proxy.client import HTTPProxyConnectionPool
from wpull.network.dns import Resolver
from wpull.errors import NetworkError, ProtocolError
from wpull.protocol.http.client import Client as HTTPClient
from wpull.protocol.http.request import Request

simset.inject(wpool, wabs)

P = 'C12'
BUDGETS = {'C12': (40, 900, 200)}
LEVELS = {'C12': 'exploration'}
PROBES = {'C12': ['proxy_pool', 'proxy_tunnel', 'proxy_tls_tunnel', 'proxy_tunnel_failed', 'cancel_just_notified', 'waiter_blocked', 'cancel_while_waiting', 'cancel_while_holding', 'cancel_while_connecting',
                  'connect_failed', 'remote_closed_idle', 'force_clean', 'reused_connection']}
INFO = {'C12': {
    'rule': 'workload = (clients N in 2..6, hosts H in 1..3, per-host limit M in 1..3, per-client rounds with '
            'release style raw/close/no_wait/session-context/http-session, hold latencies, connect faults, '
            'idle closes, cancellations at drawn virtual times); non-trivial iff at some instant a client was '
            'blocked waiting for a connection (contention actually occurred) ; distinct by the full drawn workload',
    'components': {'real': ['wpull.network.pool.ConnectionPool', 'HostPool', 'HappyEyeballsConnection',
                            'wpull.network.connection.Connection', 'wpull.network.dns.Resolver (getaddrinfo path)',
                            'wpull.protocol.abstract.client.BaseSession', 'wpull.protocol.http.client (http-session rounds)',
                            'asyncio 3.12 Lock/Condition/StreamReader'],
                   'stub': ['TCP transport (simlib.net.SimConn)', 'DNS answers', 'clock (virtual)', 'set order (SimSet, tape-driven)']},
    'assumptions': ['asyncio ready queue is FIFO (not permuted)', 'compat layer restores `with (yield from lock)`',
                    'clients release what they hold in a finally block when cancelled (as wpull sessions do)'],
}}


class EchoPeer:
    """Answers  b'PING <tag>\\n'  with  b'PONG <tag>\\n';  answers HTTP GET with a small 200."""

    def __init__(self, h, conn):
        self.h = h
        self.buf = b''
        h.server_conns.append(conn)

    def on_data(self, conn, data):
        self.buf += data
        while True:
            if self.buf.startswith(b'PING'):
                if b'\n' not in self.buf:
                    return
                line, self.buf = self.buf.split(b'\n', 1)
                conn.send(b'PONG' + line[4:] + b'\n', mode=0)
            elif b'\r\n\r\n' in self.buf:
                req, self.buf = self.buf.split(b'\r\n\r\n', 1)
                if req.startswith(b'CONNECT '):
                    # a proxy asked for a tunnel: grants it (from then on this peer is the origin), refuses, answers rubbish,
                    # answers late (so that a cancellation can fall inside the CONNECT exchange) or just closes
                    how = self.h.connect_answer()
                    self.h.r.faults['proxy_connect.' + how] += 1
                    if how in ('200', 'slow200'):
                        conn.send(b'HTTP/1.1 200 Connection established\r\n\r\n', delay=1.0 if how == 'slow200' else None)
                    elif how == '403':
                        conn.send(b'HTTP/1.1 403 Forbidden\r\nContent-Length: 6\r\n\r\ndenied')
                    elif how == '407close':
                        conn.send(b'HTTP/1.1 407 Proxy Authentication Required\r\nConnection: close\r\nContent-Length: 0\r\n\r\n')
                        conn.finish()
                    elif how == 'garbage':
                        conn.send(b'\x00\x01 not http at all\r\n\r\n')
                    else:
                        conn.finish()
                    continue
                tag = req.split(b' ')[1]
                if tag.startswith(b'http://'):
                    tag = b'/' + tag.split(b'/', 3)[3]        # absolute form (request through a proxy)
                body = b'body-of-' + tag
                conn.send(b'HTTP/1.1 200 OK\r\nContent-Length: %d\r\n\r\n' % len(body) + body)
            else:
                return

    def on_eof(self, conn):
        conn.finish()


class H:
    pass


def run(tape, prop, tier):
    r = Result()
    big = tier == 'thorough' and tape.chance(1, 4, 'big')
    N = tape.between(2, 8 if big else 6, 'N')
    Hn = tape.between(1, 3, 'H')
    M = tape.between(1, 3, 'M')
    max_count = tape.choice((100, 100, 2, 1), 'max_count')
    faults_on = tape.chance(1, 2, 'faults_on')
    r.sub = 'faults' if faults_on else 'fault-free'
    cancel_on = faults_on and tape.chance(2, 3, 'cancel_on')
    connfail_on = faults_on and tape.chance(1, 2, 'connfail_on')
    idleclose_on = faults_on and tape.chance(1, 2, 'idleclose_on')
    use_proxy = tape.chance(1, 6, 'use_proxy')
    hosts = ['h%d.test' % i for i in range(Hn)]
    h = H()
    h.server_conns = []
    simset.set_tape(tape)
    env = SimEnv(tape, max_callbacks=120_000, max_vtime=5000.0)
    workload = {'N': N, 'H': Hn, 'M': M, 'max_count': max_count, 'faults': faults_on, 'proxy': use_proxy, 'clients': []}
    try:
        with env:
            loop, net = env.loop, env.net
            net.seg_modes = (0,)
            for i, name in enumerate(hosts):
                net.add_host(name, '10.0.0.%d' % (i + 1))
                net.listen('10.0.0.%d' % (i + 1), 80, lambda conn: EchoPeer(h, conn))
            refuse_next = [0]

            def connect_faults(host, port):
                if refuse_next[0] > 0:
                    refuse_next[0] -= 1
                    return 'refuse'
                return None
            net.connect_faults = connect_faults
            resolver = Resolver()
            resolver.dns_python_enabled = False
            if use_proxy:
                # all traffic through an HTTP proxy: per-origin host keys on connections to the proxy address
                net.add_host('proxy.test', '10.0.0.99')
                net.listen('10.0.0.99', 3128, lambda conn: EchoPeer(h, conn))
                import ssl as _ssl
                tls_ctx = _ssl.SSLContext(_ssl.PROTOCOL_TLS_CLIENT)
                tls_ctx.check_hostname = False
                tls_ctx.verify_mode = _ssl.CERT_NONE
                pool = HTTPProxyConnectionPool(('proxy.test', 3128), max_host_count=M, resolver=resolver, max_count=max_count, ssl_context=tls_ctx)
            else:
                pool = ConnectionPool(max_host_count=M, resolver=resolver, max_count=max_count)
            http = HTTPClient(connection_pool=pool)

            holders = {}          # id(conn) -> client index
            conn_objs = {}        # id(conn) -> conn (keep alive so ids are not recycled)
            waiting = {}          # client -> key waited for
            state = {}            # client -> 'idle'|'waiting'|'connecting'|'holding'|'done'|'cancelled'
            finished = []
            client_tasks = {}
            ever_blocked = [False]

            def take(ci, conn):
                k = id(conn)
                conn_objs[k] = conn
                if k in holders and holders[k] != ci:
                    r.violate(P, 'shared', 'acquire-returned-held-connection',
                              'client %d got connection already held by client %d (key %r)' % (ci, holders[k], conn.key))
                holders[k] = ci
                r.log('t=%.3f c%d acquired conn#%d key=%s' % (loop.time(), ci, list(conn_objs).index(k), conn.key))

            def give(ci, conn):
                k = id(conn)
                if holders.get(k) == ci:
                    del holders[k]

            @asyncio.coroutine
            def use(ci, conn, rnd):
                # reconnect if needed (as Stream.reconnect does), then ping
                if conn.closed():
                    conn.reset()
                    state[ci] = 'connecting'
                    yield from conn.connect()
                else:
                    r.probes['reused_connection'] += 1
                state[ci] = 'holding'
                tag = ('%d.%d' % (ci, rnd)).encode()
                try:
                    yield from conn.write(b'PING ' + tag + b'\n')
                    try:
                        # (a TLS tunnel that died with an interrupted exchange is handed out again by the proxy pool and
                        # reconnects to nowhere useful: a failed exchange of this client, no concern of the pool invariants)
                        line = yield from asyncio.wait_for(conn.readline(), 60.0)
                    except asyncio.TimeoutError:
                        r.probes['exchange_timed_out'] += 1
                        raise NetworkError('no answer')
                except BaseException:
                    conn.close()    # an interrupted exchange leaves unread bytes: never reuse (as Session.abort does)
                    raise
                if line and line != b'PONG ' + tag + b'\n':
                    r.violate(P, 'shared', 'cross-talk', 'client %d read %r' % (ci, line))

            @asyncio.coroutine
            def client(ci, plan):
                try:
                    for rnd, (hi, style, hold, do_use) in enumerate(plan):
                        host = hosts[hi]
                        key = (host, 80, False)
                        if style == 'http':
                            state[ci] = 'waiting'
                            waiting[ci] = key
                            try:
                                with http.session() as session:
                                    # instrument: BaseSession._acquire_connection result
                                    resp = yield from session.start(Request('http://%s/c%d.%d' % (host, ci, rnd)))
                                    waiting.pop(ci, None)
                                    state[ci] = 'holding'
                                    for conn in session._connections:
                                        take(ci, conn)
                                    held = list(session._connections)
                                    f = io.BytesIO()
                                    if hold:
                                        yield from asyncio.sleep(hold)
                                    yield from session.download(f)
                                    if f.getvalue() != ('body-of-/c%d.%d' % (ci, rnd)).encode():
                                        r.violate(P, 'shared', 'cross-talk-http', 'client %d got %r' % (ci, f.getvalue()[:60]))
                                    for conn in held:
                                        give(ci, conn)
                            except NetworkError as e:
                                r.probes['connect_failed'] += 1
                                r.log('t=%.3f c%d http NetworkError %s' % (loop.time(), ci, type(e).__name__))
                            finally:
                                waiting.pop(ci, None)
                                for k in [k for k, v in holders.items() if v == ci]:
                                    del holders[k]
                            state[ci] = 'idle'
                            continue
                        state[ci] = 'waiting'
                        waiting[ci] = key
                        r.log('t=%.3f c%d acquire %s style=%s' % (loop.time(), ci, host, style))
                        if style == 'ctx':
                            try:
                                cm = yield from pool.session(host, 80)
                            except (NetworkError, ProtocolError):
                                r.probes['proxy_tunnel_failed'] += 1
                                waiting.pop(ci, None)
                                state[ci] = 'idle'
                                continue
                            waiting.pop(ci, None)
                            with cm as conn:
                                if conn is None:
                                    r.violate(P, 'leak', 'acquire-returned-nothing', 'client %d: session(%r) yields None as the connection (%s)'
                                              % (ci, key, type(pool).__name__))
                                    state[ci] = 'idle'
                                    continue
                                take(ci, conn)
                                try:
                                    if do_use:
                                        yield from use(ci, conn, rnd)
                                    state[ci] = 'holding'
                                    if hold:
                                        yield from asyncio.sleep(hold)
                                except NetworkError:
                                    r.probes['connect_failed'] += 1
                                    conn.close()
                                finally:
                                    give(ci, conn)
                            state[ci] = 'idle'
                            continue
                        if style in ('tunnel', 'tls_tunnel'):
                            # a tunnel through the proxy (what https and ftp URLs need): CONNECT may be refused, answered with
                            # rubbish, or be interrupted by a cancellation; whatever happens nothing may stay checked out.
                            # 'tls_tunnel': TLS is started inside the tunnel (simulated transport: a plaintext stub); the pool hands
                            # out the wrapping TLS connection and must map it back at every check-in, also on its second use
                            tls = style == 'tls_tunnel'
                            if tls:
                                key = (host, 443, True)
                                waiting[ci] = key
                            try:
                                conn = yield from pool.acquire_proxy(host, 443 if tls else 80, use_ssl=tls, tunnel=True)
                            except (NetworkError, ProtocolError):
                                r.probes['proxy_tunnel_failed'] += 1
                                waiting.pop(ci, None)
                                state[ci] = 'idle'
                                continue
                            r.probes['proxy_tls_tunnel' if tls else 'proxy_tunnel'] += 1
                        else:
                            try:
                                conn = yield from pool.acquire(host, 80)
                            except (NetworkError, ProtocolError):
                                # (proxy pool only: acquiring includes connecting to the proxy and asking for the tunnel)
                                r.probes['proxy_tunnel_failed'] += 1
                                waiting.pop(ci, None)
                                state[ci] = 'idle'
                                continue
                        if conn is None:
                            r.violate(P, 'leak', 'acquire-returned-nothing', 'client %d: acquire(%r) checked a connection out and returned None: '
                                      'it can never be given back (%s)' % (ci, key, type(pool).__name__))
                            waiting.pop(ci, None)
                            state[ci] = 'idle'
                            continue
                        waiting.pop(ci, None)
                        take(ci, conn)
                        released = False
                        try:
                            try:
                                if do_use:
                                    yield from use(ci, conn, rnd)
                                state[ci] = 'holding'
                                if hold:
                                    yield from asyncio.sleep(hold)
                            except NetworkError:
                                r.probes['connect_failed'] += 1
                                conn.close()
                            if style == 'close':
                                conn.close()
                            give(ci, conn)
                            released = True
                            r.log('t=%.3f c%d release style=%s' % (loop.time(), ci, style))
                            if style == 'nowait':
                                pool.no_wait_release(conn)
                            else:
                                yield from pool.release(conn)
                        finally:
                            if not released:
                                give(ci, conn)
                                pool.no_wait_release(conn)
                        state[ci] = 'idle'
                    state[ci] = 'done'
                except asyncio.CancelledError:
                    r.log('t=%.3f c%d cancelled in state %s' % (loop.time(), ci, state.get(ci)))
                    waiting.pop(ci, None)
                    state[ci] = 'cancelled'
                    raise
                finally:
                    finished.append(ci)

            styles = ('raw', 'nowait', 'close', 'ctx', 'http') if not use_proxy else ('http', 'http', 'tunnel', 'raw', 'nowait', 'ctx', 'tls_tunnel', 'tls_tunnel')
            answers = ('200', '200', '200', 'slow200', '403', '407close', 'garbage', 'close') if faults_on else ('200', '200', 'slow200')
            h.connect_answer = lambda: answers[tape.draw(len(answers), 'proxy.connect')]
            h.r = r
            if use_proxy:
                r.probes['proxy_pool'] += 1
            holds = (0.0, 0.01, 0.1, 1.0, 0.5)
            tasks = []
            for ci in range(N):
                rounds = tape.between(1, 4, 'rounds')
                plan = []
                for _ in range(rounds):
                    plan.append((tape.draw(Hn, 'host'), styles[tape.draw(len(styles), 'style')],
                                 holds[tape.draw(len(holds), 'hold')], not tape.chance(1, 4, 'nouse')))
                workload['clients'].append(plan)
                start = holds[tape.draw(len(holds), 'start')]
                tasks.append((ci, plan, start))

            cancels = []
            if cancel_on:
                for _ in range(tape.between(1, 3, 'ncancel')):
                    cancels.append((tape.draw(N, 'cancel.who'), tape.choice((0.0, 0.005, 0.05, 0.3, 0.7, 1.5), 'cancel.when')))
            fails = tape.between(1, 3, 'nfail') if connfail_on else 0
            idle_closes = []
            if idleclose_on:
                for _ in range(tape.between(1, 3, 'nidle')):
                    idle_closes.append(tape.choice((0.05, 0.3, 0.7, 1.5, 3.0), 'idle.when'))
            workload['cancels'] = cancels
            workload['fails'] = fails
            workload['idle'] = idle_closes
            refuse_next[0] = 0
            fail_times = [tape.choice((0.0, 0.05, 0.3, 1.0), 'fail.when') for _ in range(fails)]

            # event-triggered cancellation: cancel the waiter that was just notified, before it runs (the instant at
            # which a cancelled waiter can swallow the wake-up)
            trigger = {'cancel': None, 'left': (tape.between(1, 2, 'evcancel.n') if cancel_on and tape.chance(1, 2, 'evcancel') else 0)}
            orig_notify = asyncio.Condition.notify

            def notify_hook(cond, n=1):
                orig_notify(cond, n)
                if trigger['left'] <= 0 or trigger['cancel'] is None:
                    return
                key = None
                for k, hp in pool.host_pools.items():
                    if hp._condition is cond:
                        key = k
                if key is None:
                    return
                cands = [cj for cj, kk in waiting.items() if kk == key and client_tasks.get(cj) is not None
                         and not client_tasks[cj].done() and in_pool_acquire(client_tasks[cj])]
                if cands and tape.chance(1, 2, 'evcancel.now'):
                    trigger['left'] -= 1
                    r.probes['cancel_just_notified'] += 1
                    r.faults['cancel.just_notified'] += 1
                    r.log('t=%.3f cancel c%d right after a notify on %r' % (loop.time(), cands[0], key))
                    trigger['cancel'](cands[0])
            asyncio.Condition.notify = notify_hook

            def check_invariants():
                for key, hp in pool.host_pools.items():
                    if len(hp.busy) > M:
                        r.violate(P, 'over-allocated', 'busy>max',
                                  'host %r has %d busy connections, limit %d' % (key, len(hp.busy), M))
                    both = [c for c in hp.busy if c in hp.ready]
                    if both:
                        r.violate(P, 'shared', 'busy-and-ready', 'connection both busy and ready on %r' % (key,))
            loop.after_callback = check_invariants

            def in_pool_acquire(task):
                """True iff the task is suspended inside ConnectionPool.acquire (any depth)."""
                coro = task.get_coro()
                depth = 0
                while coro is not None and depth < 40:
                    fr = getattr(coro, 'gi_frame', None) or getattr(coro, 'cr_frame', None)
                    if fr is None:
                        return False
                    if fr.f_code.co_name == 'acquire' and fr.f_code.co_filename.endswith('network/pool.py') \
                            and 'host_key' in fr.f_code.co_varnames:
                        return True
                    coro = getattr(coro, 'gi_yieldfrom', None) or getattr(coro, 'cr_await', None)
                    depth += 1
                return False

            def quiescent():
                # nothing is runnable: every client suspended inside pool.acquire must be legitimately
                # blocked, i.e. its host has no ready connection and is at its limit
                for ci, key in list(waiting.items()):
                    t = client_tasks.get(ci)
                    if t is None or t.done() or not in_pool_acquire(t):
                        continue
                    ever_blocked[0] = True
                    r.probes['waiter_blocked'] += 1
                    hp = pool.host_pools.get(key)
                    if hp is None or hp.ready or len(hp.busy) < M:
                        r.violate(P, 'starved', 'waiter-blocked-with-capacity',
                                  'client %d suspended in pool.acquire(%r) at quiescence although ready=%s busy=%s limit=%d; tasks: %s'
                                  % (ci, key, hp and len(hp.ready), hp and len(hp.busy), M, ' | '.join(task_stacks(loop))))
                        waiting.pop(ci, None)
            loop.on_quiescent = quiescent

            @asyncio.coroutine
            def main():
                tlist = []

                @asyncio.coroutine
                def delayed(ci, plan, start):
                    if start:
                        yield from asyncio.sleep(start)
                    yield from client(ci, plan)
                for ci, plan, start in tasks:
                    state[ci] = 'idle'
                    tlist.append(asyncio.ensure_future(delayed(ci, plan, start)))
                    client_tasks[ci] = tlist[-1]

                def do_cancel(ci):
                    t = tlist[ci]
                    if not t.done():
                        st = state.get(ci)
                        if st == 'waiting':
                            r.probes['cancel_while_waiting'] += 1
                            r.faults['cancel.waiting'] += 1
                        elif st == 'holding':
                            r.probes['cancel_while_holding'] += 1
                            r.faults['cancel.holding'] += 1
                        elif st == 'connecting':
                            r.probes['cancel_while_connecting'] += 1
                            r.faults['cancel.connecting'] += 1
                        else:
                            r.faults['cancel.other'] += 1
                        r.events.append(('cancel', ci))
                        t.cancel()
                for ci, when in cancels:
                    loop.call_later(when, do_cancel, ci)
                trigger['cancel'] = do_cancel

                def do_fail():
                    refuse_next[0] += 1
                for when in fail_times:
                    loop.call_later(when, do_fail)

                def do_idle_close():
                    for sc in h.server_conns:
                        if not sc.server_closed and not sc.client_eof_seen:
                            sc.finish()
                            r.faults['remote_close'] += 1
                            r.probes['remote_closed_idle'] += 1
                            break
                for when in idle_closes:
                    loop.call_later(when, do_idle_close)

                yield from asyncio.wait(tlist)
                for ci, t in enumerate(tlist):
                    if not t.cancelled() and t.exception() is not None:
                        exc = t.exception()
                        import traceback
                        tb = traceback.extract_tb(exc.__traceback__)
                        inpool = [f for f in tb if f.filename.endswith(('network/pool.py', 'abstract/client.py', 'network/connection.py'))]
                        if not inpool:
                            raise exc          # harness bug
                        f = inpool[-1]
                        r.violate(P, 'pool-api-exception', '%s:%s' % (type(exc).__name__, f.name),
                                  'client %d: %s: %s raised in %s:%d %s' % (ci, type(exc).__name__, exc, f.filename.split('/')[-1], f.lineno, f.name))
                # drain deferred releases the way the pool itself does it
                try:
                    yield from pool._process_no_wait_releases()
                except Exception as exc:
                    import traceback
                    tb = traceback.extract_tb(exc.__traceback__)
                    inpool = [f for f in tb if f.filename.endswith(('network/pool.py', 'abstract/client.py', 'network/connection.py'))]
                    f = inpool[-1] if inpool else tb[-1]
                    r.violate(P, 'pool-api-exception', '%s:%s' % (type(exc).__name__, f.name),
                              'deferred release failed: %s: %s raised in %s:%d %s' % (type(exc).__name__, exc, f.filename.split('/')[-1], f.lineno, f.name))

            try:
                env.run(main())
            except SimDeadlock as e:
                r.violate(P, 'deadlock', 'sim-deadlock', '%s; tasks: %s' % (e, ' | '.join(task_stacks(loop))))
            except SimBudgetExceeded as e:
                r.violate(P, 'liveness', 'budget', '%s; tasks: %s' % (e, ' | '.join(task_stacks(loop))))
            else:
                loop.on_quiescent = None
                # end-state checks
                for key, hp in pool.host_pools.items():
                    if hp.busy:
                        r.violate(P, 'leak', 'busy-after-all-finished',
                                  '%d connection(s) still checked out on %r after all clients finished' % (len(hp.busy), key))
                for key, n in pool._host_pool_waiters.items():
                    if n:
                        r.violate(P, 'leak', 'waiter-count-nonzero', 'waiter count %d for %r after all clients finished' % (n, key))
                # idle hosts (no connection at all, nobody waiting) must be gone NOW - not only after the next release or an
                # explicit clean(): the statement says "once all clients have finished"
                stale = [k for k, hp in pool.host_pools.items() if hp.empty() and not pool._host_pool_waiters.get(k)]
                if stale:
                    r.violate(P, 'leak', 'idle-host-bookkeeping-kept:before-clean', 'all clients finished, nothing checked out, but empty host pools are still '
                              'registered: %r' % (stale,))
                try:
                    @asyncio.coroutine
                    def fin():
                        yield from asyncio.wait_for(pool.clean(force=True), 50)
                    env.run(fin())
                except (asyncio.TimeoutError, SimDeadlock, SimBudgetExceeded) as e:
                    r.violate(P, 'deadlock', 'clean-blocked', 'pool.clean() cannot finish after all clients finished: %r; tasks: %s'
                              % (e, ' | '.join(task_stacks(loop))))
                else:
                    left = [k for k, hp in pool.host_pools.items() if hp.empty()]
                    if left:
                        r.violate(P, 'leak', 'idle-host-bookkeeping-kept', 'empty host pools still registered after clean(): %r' % (left,))
            r.faults['connect_refused'] += net.stats.get('fault.refused', 0)
            if not r.faults['connect_refused']:
                del r.faults['connect_refused']
            if max_count < 100 and pool is not None:
                r.probes['force_clean'] += 1 if net.stats.get('connect', 0) > max_count else 0
            r.sim_time = loop.time()
            r.callbacks = loop.callbacks
            r.events.extend(net.events)
    finally:
        simset.set_tape(None)
        try:
            asyncio.Condition.notify = orig_notify
        except NameError:
            pass
    r.workload = workload
    r.nontrivial = ever_blocked[0]
    r.sample = {'workload': workload, 'sim_time': r.sim_time, 'violations': [v.cls for v in r.violations]}
    # keep one violation per class
    seen = set()
    uniq = []
    for v in r.violations:
        if (v.cls, v.sig) not in seen:
            seen.add((v.cls, v.sig))
            uniq.append(v)
    r.violations = uniq
    return r
