"""Full-application crawl simulation (DESIGN section 4: C01, C02, C20; shared by crash.py for C03).

The real application is built with AppArgumentParser().parse_args(argv) and Builder(args).build() and run
with loop.run_until_complete(app.run()) on a SimLoop. Real: everything in wpull/ (start-up pipeline, SQLite
table on tmpfs, html5lib scraper, filters, processors, pool, HTTP client, shutdown pipeline).
Stub: transport, DNS, TLS, clock; origin servers serving a generated site graph.
"""
import asyncio
import contextvars
import fnmatch
import os
import re
import shutil
import sqlite3
import tempfile

from simlib.env import SimEnv, SimDeadlock, SimBudgetExceeded, task_stacks
from simlib.runner import Result
from simlib import simset
from refs import site as refsite
from refs import scope as refscope
from refs.site import canon

import wpull.network.pool as wpool
import wpull.protocol.abstract.client as wabs
import wpull.protocol.abstract.stream as wastream
import wpull.pipeline.pipeline as wpipe
import wpull.scraper.html as wshtml
import wpull.scraper.css as wscss
import wpull.scraper.javascript as wsjs
import wpull.scraper.sitemap as wssm
import wpull.observer as wobserver
import wpull.application.hook as whook
from wpull.application.options import AppArgumentParser
from wpull.application.builder import Builder
from wpull.network.dns import Resolver
from wpull.pipeline.pipeline import ItemTask
import wpull.application.app as wapp

simset.inject(wpool, wabs, wastream, wpipe, wshtml, wscss, wsjs, wssm, wobserver, whook)

BUDGETS = {'C01': (75, 1200, 10), 'C02': (75, 1200, 10), 'C20': (150, 1200, 10)}
LEVELS = {'C01': 'exploration', 'C02': 'exploration', 'C20': 'exploration'}
WALL_LIMIT = {('C02', 'quick'): 240, ('C02', 'thorough'): 240}
PROBES = {
    'C01': ['more_workers_than_connections_per_host', 'server_closes_after_every_response', 'page_with_over_1000_links', 'linked_and_embedded', 'cycle', 'diamond', 'self_link', 'duplicate_link', 'alt_spelling', 'redirect', 'requisites', 'css_url', 'concurrency>1',
            'depth_limited', 'no_parent', 'regex', 'multi_start', 'redirect_target_also_linked', 'depth_race_possible', 'keepalive_off'],
    'C02': ['ftp_links_offered', 'ftp_link_followed', 'ftp_scope_variant', 'ftp_glob', 'ftp_file_fetched', 'robots_fetch_failed', 'robots_redirected_out', 'robots_redirect_followed', 'offered_foreign_host', 'offered_upward_path', 'offered_deep', 'offered_regex_rejected', 'offered_excluded_dir',
            'offered_rejected_suffix', 'cross_host_redirect', 'waiver_used', 'retry', 'requests_attributed', 'span_hosts_allow',
            'domains', 'hostnames', 'https_only', 'tries'],
    'C20': ['robots_disallow', 'robots_allow_all', 'robots_404', 'robots_5xx', 'robots_redirect', 'robots_redirect_to_other_origin', 'many_origins', 'robots_with_non_utf8_bytes', 'robots_big', 'robots_netfault', 'tag_options', 'sitemaps_option', 'nofollow_page',
            'multi_origin', 'concurrency>1', 'agent_specific_group', 'robots_wildcard_rules', 'robots_garbled_answer', 'disallowed_offered'],
}
_COMMON = {
    'components': {'real': ['wpull.application (Builder, Application, all start-up/shutdown tasks)', 'wpull.pipeline', 'wpull.database (SQLite file on tmpfs)',
                            'wpull.processor (web, rule, delegate)', 'wpull.urlfilter', 'wpull.scraper (html5lib)', 'wpull.protocol.http (client, web, robots)',
                            'wpull.network (pool, connection, dns)', 'wpull.url', 'wpull.writer (NullWriter / --delete-after)'],
                   'stub': ['TCP transport', 'DNS', 'TLS', 'clock', 'origin servers (generated site graph)', 'set order (SimSet)']},
    'assumptions': ['refs/site.py knows the canonical identity of every URL it emits', 'refs/scope.py restates the documented option semantics',
                    '--concurrent is applied through PipelineSeries.concurrency (the option is not wired in this snapshot)'],
}
INFO = {
    'C01': dict(_COMMON, rule='workload = generated site graph (2..14 resources, cycles, diamonds, self/duplicate links, alternative spellings, '
                'same-host redirects, requisites, CSS url()) x options (-r, -l, -p, --no-parent, regex, -H, 1..3 start URLs) x concurrency '
                '1..4 x keep-alive x latencies; non-trivial iff the graph has >= 4 fetched URLs and a cycle or diamond or alternative '
                'spelling; distinct by graph+options digest'),
    'C02': dict(_COMMON, rule='workload = site offering out-of-scope URLs (foreign hosts, upward paths, deep levels, rejected names/dirs, cross-host '
                'redirects) x drawn subset and parameters of the scope options x retries; every request is attributed to its queue item '
                '(contextvar monitor task) and judged by refs/scope.py; non-trivial iff >= 1 out-of-scope URL was offered and >= 3 requests made'),
    'C20': dict(_COMMON, rule='workload = 1..3 origins with generated robots.txt (groups, allow/disallow, sizes, served directly/redirect/404/5xx) x '
                'pages with/without meta nofollow x user agents x concurrency; non-trivial iff a disallowed URL was offered'),
}

ctx_item = contextvars.ContextVar('verif_item', default=None)


class NoDNSPythonResolver(Resolver):
    def __init__(self, *a, **k):
        super().__init__(*a, **k)
        self.dns_python_enabled = False


class MonitorTask(ItemTask):
    """Inserted at the head of the download pipeline's task list: makes the queue item visible to the transport."""
    seq = 0

    @asyncio.coroutine
    def process(self, item_session):
        item_session._verif_start = asyncio.get_event_loop().time()
        MonitorTask.seq += 1
        item_session._verif_run = MonitorTask.seq          # one number per run of an item through the pipeline
        ctx_item.set(item_session)


class CrawlServer:
    def __init__(self, h, site, net):
        self.h = h
        self.site = site
        self.net = net
        self.log = []          # dict per request
        self.behaviour = {}    # (origin key, target) -> callable(conn, req) overriding normal serving
        for o in site.origins:
            net.add_host(o.host, o.ip)
            net.listen(o.ip, o.port, self._accept(o))

    def _accept(self, origin):
        def accept(conn):
            return _H(self, conn, origin)
        return accept

    def serve(self, conn, origin, raw, ctx, body=b''):
        h = self.h
        line = raw.split(b'\r\n', 1)[0].decode('latin-1')
        parts = line.split(' ')
        method, target = parts[0], parts[1] if len(parts) > 1 else ''
        fields = {}
        for ln in raw.split(b'\r\n')[1:]:
            if b':' in ln:
                n, v = ln.split(b':', 1)
                fields.setdefault(n.strip().lower().decode('latin-1'), []).append(v.strip().decode('latin-1'))
        url = origin.prefix + target
        rec = None
        if ctx is not None:
            ur = ctx.url_record
            rec = {'url': ur.url, 'level': ur.level, 'inline_level': ur.inline_level, 'parent_url': ur.parent_url,
                   'root_url': ur.root_url, 'try_count': ur.try_count, 'link_type': ur.link_type.value if ur.link_type else None,
                   'item_start': getattr(ctx, '_verif_start', None), 'item_run': getattr(ctx, '_verif_run', None)}
        entry = {'t': h.loop.time(), 'origin': origin.key(), 'target': target, 'url': url, 'method': method, 'rec': rec,
                 'conn': conn.id, 'fields': fields, 'n': len(self.log)}
        if body:
            entry['body'] = body
        self.log.append(entry)
        h.r.events.append(('req', url))
        if h.on_request is not None:
            h.on_request(entry)
        # (like common servers: percent-encoded dots are dots, dot segments are resolved before the resource is looked up)
        tpath, tq, tquery = target.partition('?')
        res = self.site.lookup(origin.key(), refsite.resolve_dot_segments(tpath) + tq + tquery if tpath.startswith('/') else target)
        entry['known'] = res is not None
        beh = self.behaviour.get((origin.key(), target))
        if beh is not None:
            beh(conn, entry, res)
            return
        self.respond_resource(conn, res, entry)

    def respond_resource(self, conn, res, entry=None, keepalive=True):
        tape = self.h.tape
        if res is None:
            self.send(conn, 404, 'Not Found', [('Content-Type', 'text/plain')], b'not found')
            return
        if res.kind == 'redirect':
            self.send(conn, res.redirect_code, 'Moved', [('Location', res.redirect_spelling), ('Content-Type', 'text/plain')], res.body)
            return
        self.send(conn, res.status, 'OK' if res.status == 200 else 'Status', [('Content-Type', res.content_type)], res.body)

    def send(self, conn, status, reason, headers, body, chunked=None):
        tape = self.h.tape
        hd = ['HTTP/1.1 %d %s' % (status, reason)]
        if chunked is None:
            chunked = tape.chance(1, 4, 'srv.chunked') and body
        if chunked:
            hd.append('Transfer-Encoding: chunked')
            payload = b'%x\r\n' % len(body) + body + b'\r\n0\r\n\r\n'
        else:
            hd.append('Content-Length: %d' % len(body))
            payload = body
        close = not self.h.keepalive_server or tape.chance(1, 10, 'srv.close')
        if close:
            hd.append('Connection: close')
        hd += ['%s: %s' % kv for kv in headers]
        conn.send(('\r\n'.join(hd) + '\r\n\r\n').encode('latin-1') + payload)
        if close:
            conn.finish()


class _H:
    def __init__(self, srv, conn, origin):
        self.srv = srv
        self.origin = origin
        self.buf = b''
        self.pending = None

    def on_data(self, conn, data):
        self.buf += data
        while True:
            if self.pending is None:
                if b'\r\n\r\n' not in self.buf:
                    return
                raw, self.buf = self.buf.split(b'\r\n\r\n', 1)
                m = re.search(br'(?im)^content-length:[ \t]*(\d+)[ \t]*\r?$', raw)
                self.pending = (raw, int(m.group(1)) if m else 0, self.srv.net.current_ctx)
            raw, need, ctx = self.pending
            if len(self.buf) < need:
                return                                  # (the request body, --post-data, is still arriving)
            body, self.buf = self.buf[:need], self.buf[need:]
            self.pending = None
            self.srv.serve(conn, self.origin, raw, ctx, body)

    def on_eof(self, conn):
        conn.finish()


class H:
    pass


def run_app(tape, r, site, argv, concurrency, sandbox, setup=None, budget_vtime=200_000.0, max_callbacks=400_000):
    """Build and run the real application against the site. Returns dict(exit, server, rows, crashed, hang)."""
    h = H()
    h.r = r
    h.tape = tape
    h.on_request = None
    h.keepalive_server = True
    out = {'exit': None, 'crashed': False, 'hang': None}
    simset.set_tape(tape)
    env = SimEnv(tape, max_callbacks=max_callbacks, max_vtime=budget_vtime)
    crash = []
    fatal = []
    orig_crash = wapp.Application._print_crash_message
    orig_update = wapp.Application._update_exit_code_from_error

    def record_fatal(self, error):
        import traceback
        # (the message can be very long - a path, a document: keep the head of it and the tail of the traceback before it)
        tb = ''.join(traceback.format_tb(error.__traceback__))[-1500:]
        fatal.append(tb + '%s: %s' % (type(error).__name__, str(error)[:300]))
        return orig_update(self, error)
    try:
        with env:
            loop, net = env.loop, env.net
            h.loop = loop
            net.write_context = ctx_item.get
            server = CrawlServer(h, site, net)
            out['server'] = server
            out['h'] = h
            if setup is not None:
                setup(h, server, net)
            try:
                args = AppArgumentParser().parse_args(argv)
            except SystemExit as e:
                raise RuntimeError('harness generated an invalid command line: %r' % (argv,)) from e
            builder = Builder(args)
            builder.factory.class_map['Resolver'] = NoDNSPythonResolver
            wapp.Application._print_crash_message = classmethod(lambda cls: crash.append(True))
            wapp.Application._update_exit_code_from_error = record_fatal
            app = builder.build()
            series = builder.factory['PipelineSeries']
            series.concurrency = concurrency
            download_pipeline = series.pipelines[1]
            download_pipeline.tasks.insert(0, MonitorTask())
            out['factory'] = builder.factory
            out['app'] = app
            try:
                out['exit'] = env.run(app.run())
            except SimDeadlock as e:
                out['hang'] = 'deadlock: %s; %s' % (e, ' | '.join(task_stacks(loop)))
            except SimBudgetExceeded as e:
                out['hang'] = 'budget: %s; %s' % (e, ' | '.join(task_stacks(loop))[:1500])
            except BaseException as e:
                import traceback
                out['exception'] = ''.join(traceback.format_exception(type(e), e, e.__traceback__))[-2500:]
            finally:
                try:
                    t = builder.factory.instance_map.get('URLTable') if hasattr(builder.factory, 'instance_map') else None
                    if t is not None:
                        t.close()
                except Exception:
                    pass
            out['crashed'] = bool(crash)
            out['fatal'] = fatal[:1]
            r.sim_time += loop.time()
            r.callbacks += loop.callbacks
            r.events.extend(net.events)
            out['conns'] = len(net.conns)
            out['net_stats'] = dict(net.stats)
    finally:
        wapp.Application._print_crash_message = orig_crash
        wapp.Application._update_exit_code_from_error = orig_update
        simset.set_tape(None)
        import logging
        root = logging.getLogger()
        for hd in list(root.handlers):
            root.removeHandler(hd)
        root.setLevel(logging.CRITICAL)
    return out


def read_rows(dbpath):
    """Rows of the URL table read with sqlite3 directly (independent of wpull)."""
    rows = []
    if not os.path.exists(dbpath):
        return rows
    con = sqlite3.connect(dbpath)
    try:
        cur = con.execute(
            'SELECT u.url, q.status, q.try_count, q.level, q.inline_level, p.url, r.url, q.status_code '
            'FROM queued_urls q JOIN url_strings u ON q.url_string_id = u.id '
            'LEFT JOIN url_strings p ON q.parent_url_string_id = p.id '
            'LEFT JOIN url_strings r ON q.root_url_string_id = r.id ORDER BY q.id')
        for row in cur:
            rows.append({'url': row[0], 'status': row[1], 'try_count': row[2], 'level': row[3], 'inline_level': row[4],
                         'parent': row[5], 'root': row[6], 'status_code': row[7]})
    except sqlite3.OperationalError:
        pass        # killed before the schema existed
    finally:
        con.close()
    return rows


# ----------------------------------------------------------------------------------------
# reference reachability
def reference_crawl(site, starts, opts, own_hosts, allow=None):
    """Reference crawl: breadth-first from the start URLs, one row per URL, depth = shortest link distance
    (what a sequential crawl does). Returns (rows, expected_requests):
    rows: url -> record dict incl. 'passes'; expected_requests: url -> number of expected requests (1),
    redirect targets that are followed inside a redirect item are listed in rows[...]['followed']."""
    def urld(res):
        return refscope.parse(res.url)
    rows = {}
    queue = []
    for s in starts:
        if s.url not in rows:
            rows[s.url] = {'res': s, 'level': 0, 'inline_level': None, 'parent': None, 'root': None, 'try_count': 0}
            queue.append(s.url)
    expected = {}
    while queue:
        u = queue.pop(0)
        rec = rows[u]
        if rec.get('passes'):
            continue            # already fetched through this record
        res = rec['res']
        ok, failed = refscope.passes(urld(res), rec, opts, own_hosts)
        rec['passes'] = ok
        rec['failed'] = failed
        rec['followed'] = []
        if ok and allow is not None and not allow(res):
            rec['passes'] = ok = False
            rec['robots'] = 'disallowed'
        if not ok:
            continue
        expected[u] = expected.get(u, 0) + 1
        doc = res
        hops = 0
        while doc is not None and doc.kind == 'redirect' and hops < 25:
            tgt = doc.redirect_to
            okr, failedr = refscope.passes(urld(tgt), rec, opts, own_hosts)
            if not okr and not (opts.get('strong_redirects', True) and failedr == ['span_hosts']):
                doc = None
                break
            if allow is not None and not allow(tgt):
                doc = None
                break
            rec['followed'].append(tgt.url)
            doc = tgt
            hops += 1
        if doc is None or doc.kind not in ('page', 'css') or doc.status != 200:
            continue
        root = rec['root'] or urld(res)
        children = [(dst, None) for dst, sp in (doc.links if not doc.nofollow else [])]
        # (a frame is an embedded object AND a link to an HTML document: a page that declares nofollow does not have it followed)
        children += [(dst, (rec['inline_level'] or 0) + 1) for dst, sp, tag in doc.inlines if not (doc.nofollow and tag in ('iframe', 'embed'))]
        for dst, il in children:
            child = {'res': dst, 'level': rec['level'] + 1, 'inline_level': il, 'parent': urld(res), 'root': root, 'try_count': 0}
            if not _record_rules_pass(child, opts):
                continue
            child['pre'] = refscope.passes(urld(dst), child, opts, own_hosts)[0] and (allow is None or allow(dst))
            old = rows.get(dst.url)
            if old is None:
                rows[dst.url] = child
                queue.append(dst.url)
            elif child['pre'] and not old.get('passes') and not old.get('pre', old['level'] == 0):
                # discovered before through a record that fails a rule (e.g. an <a> link to an object outside the parent
                # directory), now through one that passes (the same object embedded in a page): it is reachable in scope
                rows[dst.url] = child
                queue.append(dst.url)
    return rows, expected


def _record_rules_pass(rec, opts):
    """The rules that depend on the record only (evaluated when a link is scraped)."""
    dummy = {'scheme': 'http', 'host': '__own__', 'port': 80, 'path': '/', 'query': None, 'url': 'http://__own__/'}
    o = dict(opts)
    for k in ('no_parent', 'accept_regex', 'reject_regex', 'domains', 'exclude_domains', 'hostnames', 'exclude_hostnames',
              'include_directories', 'exclude_directories', 'accept', 'reject', 'https_only'):
        o[k] = refscope.DEFAULTS[k]
    ok, failed = refscope.passes(dummy, dict(rec, parent=None, root=None), o, ['__own__'])
    return ok


def argv_for(opts, starts, dbpath, extra=()):
    argv = [s for s in starts]
    if opts.get('database_uri'):
        argv += ['--database-uri', 'sqlite:///' + dbpath]      # same file through GenericSQLURLTable
    else:
        argv += ['--database', dbpath]
    argv += ['--delete-after', '--no-check-certificate', '--waitretry', '0', '-q']
    if opts.get('input_file'):
        argv += ['--input-file', opts['input_file']]
    if opts.get('recursive'):
        argv.append('-r')
    if opts.get('level') not in (None, 5):
        argv += ['--level', str(opts['level'])]
    if opts.get('page_requisites'):
        argv.append('-p')
    if opts.get('no_parent'):
        argv.append('--no-parent')
    if opts.get('accept_regex'):
        argv += ['--accept-regex', opts['accept_regex']]
    if opts.get('reject_regex'):
        argv += ['--reject-regex', opts['reject_regex']]
    if opts.get('span_hosts'):
        argv.append('-H')
    if opts.get('span_hosts_allow'):
        argv += ['--span-hosts-allow', ','.join(opts['span_hosts_allow'])]
    if opts.get('domains'):
        argv += ['--domains', ','.join(opts['domains'])]
    if opts.get('exclude_domains'):
        argv += ['--exclude-domains', ','.join(opts['exclude_domains'])]
    if opts.get('hostnames'):
        argv += ['--hostnames', ','.join(opts['hostnames'])]
    if opts.get('exclude_hostnames'):
        argv += ['--exclude-hostnames', ','.join(opts['exclude_hostnames'])]
    if opts.get('include_directories'):
        argv += ['--include-directories', ','.join(opts['include_directories'])]
    if opts.get('exclude_directories'):
        argv += ['--exclude-directories', ','.join(opts['exclude_directories'])]
    if opts.get('accept'):
        argv += ['--accept', ','.join(opts['accept'])]
    if opts.get('reject'):
        argv += ['--reject', ','.join(opts['reject'])]
    if opts.get('https_only'):
        argv.append('--https-only')
    if opts.get('strong_redirects') is False:
        argv.append('--no-strong-redirects')
    if opts.get('tries') not in (None, 20):
        argv += ['--tries', str(opts['tries'])]
    if not opts.get('robots'):
        argv.append('--no-robots')
    if opts.get('no_keep_alive'):
        argv.append('--no-http-keep-alive')
    if opts.get('user_agent'):
        argv += ['--user-agent', opts['user_agent']]
    if opts.get('max_redirect') is not None:
        argv += ['--max-redirect', str(opts['max_redirect'])]
    if opts.get('sitemaps'):
        argv.append('--sitemaps')
    if opts.get('follow_ftp'):
        argv.append('--follow-ftp')
    if opts.get('page_requisites_level') not in (None, 5):
        argv += ['--page-requisites-level', str(opts['page_requisites_level'])]
    argv += list(extra)
    return argv


def graph_features(site, starts):
    feats = set()
    adj = {}
    for res in site.order:
        outs = [d.url for d, _ in res.links] + [d.url for d, _, _ in res.inlines]
        if res.redirect_to is not None:
            outs.append(res.redirect_to.url)
        adj[res.url] = outs
        if res.url in [d.url for d, _ in res.links]:
            feats.add('self_link')
        urls = [d.url for d, _ in res.links]
        if len(set(urls)) < len(urls):
            feats.add('duplicate_link')
        for d, sp in res.links:
            if '://' in sp and canon(sp) == d.url and sp.split('#')[0] != d.url:
                feats.add('alt_spelling')
            if './' in sp or '/../' in sp or '#' in sp:
                feats.add('alt_spelling')
        if res.kind == 'redirect':
            feats.add('redirect')
        if res.inlines:
            feats.add('requisites')
        if res.kind == 'css' and res.inlines:
            feats.add('css_url')
    # cycle / diamond detection
    indeg = {}
    for u, outs in adj.items():
        for v in set(outs):
            if v != u:
                indeg[v] = indeg.get(v, 0) + 1
    if any(n >= 2 for n in indeg.values()):
        feats.add('diamond')
    color = {}

    def dfs(u):
        color[u] = 1
        for v in adj.get(u, []):
            if v == u:
                continue
            if color.get(v) == 1:
                feats.add('cycle')
            elif v not in color:
                dfs(v)
        color[u] = 2
    for s in starts:
        if s.url not in color:
            dfs(s.url)
    return feats


def gen_c01(tape, tier):
    opts = {'robots': False}
    opts['recursive'] = not tape.chance(1, 8, 'opt.norec')
    opts['level'] = tape.choice((5, 1, 2, 3, 'inf'), 'opt.level')
    opts['page_requisites'] = tape.chance(1, 2, 'opt.p')
    if opts['page_requisites'] and tape.chance(1, 3, 'opt.prl'):
        opts['page_requisites_level'] = tape.choice((1, 2, 3), 'opt.prl.n')
    opts['no_parent'] = tape.chance(1, 4, 'opt.np')
    rx = tape.draw(6, 'opt.regex')
    if rx == 1:
        opts['reject_regex'] = r'b\.html'
    elif rx == 2:
        opts['accept_regex'] = r'(/$|html|png|css|/r\d)'
    elif rx == 3:
        opts['reject_regex'] = r'/d2/'
    opts['span_hosts'] = tape.chance(1, 5, 'opt.H')
    opts['no_keep_alive'] = tape.chance(1, 6, 'opt.nokeepalive')
    nhosts = tape.choice((1, 1, 2), 'site.nhosts')
    npages = tape.between(2, 10 if tier == 'thorough' else 8, 'site.npages')
    # (--no-parent from the top directory: the option must then change nothing)
    # (with a depth limit and -p, framed documents are frequent: a frame is an embedded object AND a page whose links have a depth)
    framed = opts.get('level') not in ('inf', None) and opts.get('page_requisites')
    site, starts, pages, assets, redirects = refsite.gen_site(tape, nhosts=nhosts, npages=npages,
                                                             start_in_subdir=opts['no_parent'] and not tape.chance(1, 4, 'np.at_root'),
                                                             iframe_chance=(1, 3) if framed else (1, 8))
    if framed and not opts['no_parent'] and tape.chance(1, 3, 'site.frame_diamond'):
        # a page (t) reachable through a framed document of one page and, one step nearer, through a sibling of that page; behind
        # it a chain, so that for every depth limit something lies exactly at the limit on the shorter path
        o = starts[0].origin
        gp, gq, gf, gt, g1, g2 = (site.add(o, '/g/%s.html' % n, 'page') for n in ('p', 'q', 'f', 't', 'c1', 'c2'))
        gp.inlines.append((gf, gf.url, 'iframe'))
        gf.links.append((gt, gt.url))
        gq.links.append((gt, gt.url))
        gt.links.append((g1, g1.url))
        g1.links.append((g2, g2.url))
        starts[0].links.append((gp, gp.url))
        starts[0].links.append((gq, gq.url))
        pages += [gp, gq, gf, gt, g1, g2]
    if tape.chance(1, 5, 'multi_start') and len(pages) > 2 and not opts['no_parent']:
        extra = pages[1 + tape.draw(len(pages) - 1, 'start.extra')]
        if extra.origin.key() == starts[0].origin.key() and extra not in starts:
            starts.append(extra)
    if tape.chance(1, 20, 'site.bigpage'):
        # one page with far more than 1000 links (child URLs are handed to the table in batches of 1000 while the page is
        # still being processed): most are the same few pages in different spellings (fragments), the rest small pages
        big = pages[tape.draw(len(pages), 'site.bigpage.which')]
        same = [p for p in pages if p.origin.key() == big.origin.key()]
        tiny = [site.add(big.origin, big.dir + 'many/t%d.html' % i, 'page') for i in range(tape.between(6, 14, 'site.bigpage.tiny'))]
        nfrag = tape.choice((990, 1200, 2100), 'site.bigpage.nfrag')
        links = []
        for i in range(nfrag):
            dst = same[i % len(same)]
            links.append((dst, dst.path + ('?' + dst.query if dst.query else '') + '#frag%d' % i))
        links += [(t, t.path) for t in tiny]
        order = tape.subrng('site.bigpage.order')
        order.shuffle(links)
        big.links.extend(links)
        site.big_page = big.url
    site.finalize()
    return site, starts, opts


def _dual_record_upstream(u, ref_rows, rowmap, dual):
    cur, n = u, 0
    while cur is not None and n < 40:
        rec = ref_rows.get(cur)
        if rec is None:
            return False
        row = rowmap.get(cur)
        if cur in dual and row is not None and (row['inline_level'] or None) != (rec['inline_level'] or None):
            return True
        cur = rec['parent']['url'] if rec['parent'] else None
        n += 1
    return False


def judge_c01(r, site, starts, opts, out, rows, concurrency):
    P = 'C01'
    server = out['server']
    own = sorted({s.origin.host for s in starts})
    ref_rows, expected = reference_crawl(site, starts, opts, own)
    reqs = {}
    for e in server.log:
        reqs.setdefault(canon(e['url']), []).append(e)
    # redirect targets requested inside a redirect item (legitimately, once per redirect item)
    redirect_targets = {}
    for res in site.order:
        if res.kind == 'redirect':
            redirect_targets.setdefault(res.redirect_to.url, []).append(res.url)
    if out.get('hang'):
        r.violate(P, 'no-termination', 'hang', out['hang'][:1500])
        return
    if out.get('exception'):
        r.violate(P, 'crash', 'exception-escaped-app-run', out['exception'][-1200:])
        return
    if out['crashed'] or out['exit'] not in (0,):
        r.violate(P, 'crash', 'exit-status', 'exit status %r crashed=%r in a crawl where no fetch fails' % (out['exit'], out['crashed']))
    # (a) at most once
    for u, es in reqs.items():
        if len(es) > 1:
            via = [e['rec']['url'] if e['rec'] else None for e in es]
            if u in redirect_targets:
                sig = 'redirect-target-also-fetched'
                r.probes['redirect_target_also_linked'] += 1
            else:
                sig = 'plain'
            r.violate(P, 'requested-twice', sig, '%s requested %d times, on behalf of items %r (concurrency %d)' % (u, len(es), via, concurrency))
    # unknown targets = non-canonical request
    for e in server.log:
        if not e['known']:
            r.violate(P, 'noncanonical-request', 'unknown-target', 'request for %s does not name any resource of the site (item %r)'
                      % (e['url'], e['rec'] and e['rec']['url']))
    # (b)/(c) coverage against the breadth-first reference
    followed = {t for rec in ref_rows.values() for t in rec.get('followed', [])}
    deviating = [(x['url'], x['level'], ref_rows[canon(x['url'])]['level']) for x in rows
                 if canon(x['url']) in ref_rows and x['level'] != ref_rows[canon(x['url'])]['level']]
    if deviating:
        r.probes['depth_race_possible'] += 1
    # (C01-K2 is about the order in which concurrent answers arrive: with one worker the table fills breadth first and a recorded
    # depth that differs from the shortest distance is no race)
    race = bool(deviating) and opts.get('level') not in ('inf',) and concurrency > 1
    rowmap = {canon(x['url']): x for x in rows}
    dual = ({d.url for res in site.order for d, _ in res.links if not isinstance(d, str)} &
            {d.url for res in site.order for d, _, _ in res.inlines})
    for u in expected:
        if u not in reqs:
            row = [x for x in rows if canon(x['url']) == u]
            rec = ref_rows[u]
            sig = 'recorded-depth-differs-from-shortest-distance' if race else 'plain'
            if sig == 'plain' and _dual_record_upstream(u, ref_rows, rowmap, dual):
                # the URL itself, or one on its reference path, is both linked (<a>) and embedded; the table kept the first of
                # the two discovery records (INSERT OR IGNORE), the reference path needs the other one
                sig = 'first-discovery-record-wins:linked-and-embedded'
                r.probes['linked_and_embedded'] += 1
            r.violate(P, 'missed-url', sig, '%s is in scope (shortest distance %d, inline %r) but was never requested; its row: %r; '
                      'rows whose recorded level differs from the shortest distance: %r (concurrency %d, -l %r)'
                      % (u, rec['level'], rec['inline_level'], [(x['status'], x['level'], x['inline_level'], x['parent']) for x in row][:1],
                         deviating[:4], concurrency, opts.get('level')))
    for u in reqs:
        if u not in expected and u not in followed:
            sig = 'recorded-depth-differs-from-shortest-distance' if race else 'not-in-scope-by-reference'
            r.violate(P, 'extra-request', sig, '%s was requested but the reference crawl does not fetch it (reference record %r); item %r'
                      % (u, {k: v for k, v in ref_rows.get(u, {}).items() if k in ('level', 'inline_level', 'passes', 'failed')},
                         reqs[u][0]['rec'] and (reqs[u][0]['rec']['url'], reqs[u][0]['rec']['level'], reqs[u][0]['rec']['inline_level'])))
    # (e) rows final, (f) one row per canonical URL
    seen = {}
    for row in rows:
        if row['status'] not in ('done', 'skipped'):
            r.violate(P, 'row-not-final', row['status'], 'row %s ended in state %s (try_count %d)' % (row['url'], row['status'], row['try_count']))
        c = canon(row['url'])
        if c in seen:
            r.violate(P, 'duplicate-row', 'two-rows-one-url', 'rows %r and %r are the same URL' % (seen[c], row['url']))
        seen[c] = row['url']
    for u in reqs:
        if u not in seen and u not in redirect_targets:
            r.violate(P, 'request-without-row', 'no-row', '%s was requested but has no table row' % u)


# ----------------------------------------------------------------------------------------
def gen_c02(tape, tier):
    opts = {'robots': tape.chance(1, 3, 'opt.robots'), 'recursive': True}
    opts['level'] = tape.choice((5, 1, 2, 'inf'), 'opt.level')
    opts['page_requisites'] = tape.chance(1, 2, 'opt.p')
    if opts['page_requisites'] and tape.chance(1, 3, 'opt.prl'):
        opts['page_requisites_level'] = tape.choice((1, 2, 3), 'opt.prl.n')
    opts['no_parent'] = tape.chance(1, 3, 'opt.np')
    k = tape.draw(8, 'opt.regex')
    if k == 1:
        opts['reject_regex'] = r'b\.html'
    elif k == 2:
        opts['accept_regex'] = r'(/$|html|/r\d|css|png)'
    elif k == 3:
        opts['reject_regex'] = r'/d2/'
    k = tape.draw(6, 'opt.span')
    if k == 1:
        opts['span_hosts'] = True
    elif k == 2:
        opts['span_hosts_allow'] = ('page-requisites',)
    elif k == 3:
        opts['span_hosts_allow'] = ('linked-pages',)
    elif k == 4:
        opts['span_hosts_allow'] = ('page-requisites', 'linked-pages')
    k = tape.draw(9, 'opt.hosts')
    if k == 1:
        opts['span_hosts'] = True
        opts['domains'] = ['site.test']
    elif k == 2:
        opts['span_hosts'] = True
        opts['exclude_domains'] = ['other.test']
    elif k == 3:
        opts['span_hosts'] = True
        opts['hostnames'] = ['site.test', 'third.test']
    elif k == 4:
        opts['span_hosts'] = True
        opts['exclude_hostnames'] = ['other.test']
    elif k == 5:
        # the two families together: every rule given must hold
        opts['span_hosts'] = True
        opts['domains'] = ['site.test', 'other.test']
        opts['exclude_hostnames'] = ['other.test']
    elif k == 6:
        opts['span_hosts'] = True
        opts['hostnames'] = ['site.test', 'other.test', 'third.test']
        opts['exclude_domains'] = ['third.test']
    elif k == 8:
        # the suffix form with a leading dot: sub-domains of a domain (a host 'www.other.test' is added to the site below)
        opts['span_hosts'] = True
        opts['exclude_domains'] = ['.other.test']
    elif k == 7:
        opts['span_hosts'] = True
        opts['domains'] = ['test']
        opts['exclude_hostnames'] = ['third.test', 'other.test'][:tape.between(1, 2, 'opt.hosts.nex')]
    if tape.chance(1, 4, 'opt.hosts.typed'):
        # the way a user may type such lists: upper case, a trailing comma (an empty item)
        for key in ('domains', 'exclude_domains', 'hostnames', 'exclude_hostnames'):
            if opts.get(key):
                how = tape.draw(3, 'opt.hosts.typed.' + key)
                if how == 0:
                    opts[key] = [x.upper() for x in opts[key]]
                elif how == 1:
                    opts[key] = [x.capitalize() for x in opts[key]] + ['']
    if opts.get('span_hosts'):
        opts.pop('span_hosts_allow', None)      # mutually exclusive on the command line
    k = tape.draw(8, 'opt.dirs')
    if k == 1:
        opts['exclude_directories'] = ['/other']
    elif k == 2:
        opts['include_directories'] = ['/d1']
        opts['no_parent'] = True
    elif k == 3:
        opts['exclude_directories'] = ['/d1/d2']
    ka = tape.draw(10, 'opt.accept')
    if ka == 1:
        opts['accept'] = ['html', 'css', 'png']
    elif ka == 2:
        opts['reject'] = ['png']                 # -R with one suffix
    elif ka == 3:
        opts['reject'] = ['css', 'png']          # -R with a comma separated list
    elif ka == 4:
        opts['reject'] = ['p*.html', 'png']      # patterns
    elif ka == 5:
        opts['reject'] = ['i[0-9].pn[a-z]']      # one pattern with character classes (whole-name match)
    elif ka == 6:
        opts['reject'] = ['[a-z][0-9].htm[k-m]', 'c[0-9].cs[r-t]']
    opts['strong_redirects'] = not tape.chance(1, 4, 'opt.nostrong')
    opts['tries'] = tape.choice((20, 1, 2, 3), 'opt.tries')
    nhosts = tape.choice((2, 3, 1), 'site.nhosts')
    np_root = opts['no_parent'] and tape.chance(1, 4, 'np.at_root')       # --no-parent from the top directory: must change nothing
    np_ports = opts['no_parent'] and tape.chance(1, 3, 'np.ports')
    site, starts, pages, assets, redirects = refsite.gen_site(tape, nhosts=nhosts, npages=tape.between(3, 8, 'site.npages'),
                                                             start_in_subdir=opts['no_parent'] and not np_root,
                                                             main_port=8080 if np_ports else None)
    main = site.origins[0]
    if opts.get('exclude_domains') == ['.other.test']:
        www = site.add_origin('http', 'www.other.test')
        wp = site.add(www, '/w.html', 'page')
        starts[0].links.append((wp, wp.url))
        pages.append(wp)
    if np_ports:
        # the start host on a port of its own, and its https twin on another: links that change the scheme stay on the same
        # site and stay under the directory rule, whatever the ports are
        twin = site.add_origin('https', 'site.test', 8443, ip=main.ip)
        up = site.add(twin, '/up/x.html', 'page')
        top = site.add(twin, '/top.html', 'page')
        inside = site.add(twin, starts[0].dir + 'sec.html', 'page')
        up.links.append((top, top.url))
        for dst in (up, inside):
            starts[0].links.append((dst, dst.url))
        pages += [up, top, inside]
    if opts['no_parent'] and not np_root and tape.chance(1, 3, 'np.start_redirects_out'):
        # a second start URL inside the start directory that redirects out of it: for a redirect only the host rule is waived
        outside = [p for p in pages if p.origin.key() == main.key() and not p.path.startswith(starts[0].dir)]
        dst = outside[tape.draw(len(outside), 'np.sro.dst')] if outside else site.add(main, '/outside.html', 'page')
        if dst not in pages:
            pages.append(dst)
        rr = site.add(main, starts[0].dir + 'leave', 'redirect')
        rr.redirect_to = dst
        rr.redirect_code = tape.choice((301, 302, 307), 'np.sro.code')
        rr.redirect_spelling = refsite.spell(tape, rr, dst)
        starts = list(starts) + [rr]
    # cross-host redirect
    if nhosts >= 2 and tape.chance(1, 2, 'site.xredirect'):
        rr = site.add(main, '/d1/xr' if opts['no_parent'] else '/xr', 'redirect')
        others = [p for p in pages if p.origin.key() != main.key()]
        rr.redirect_to = others[tape.draw(len(others), 'site.xr.dst')]
        rr.redirect_code = tape.choice((301, 302, 307), 'site.xr.code')
        rr.redirect_spelling = refsite.spell(tape, rr, rr.redirect_to)
        starts[0].links.append((rr, refsite.spell(tape, starts[0], rr)))
    # transient errors to exercise the tries rule
    flaky = []
    if tape.chance(1, 3, 'site.flaky'):
        cand = [p for p in pages[1:] if p.origin.key() == main.key()]
        if cand:
            f = cand[tape.draw(len(cand), 'site.flaky.which')]
            flaky.append((f, tape.choice((1, 2, 5, 30), 'site.flaky.n')))
    # pages that link to FTP URLs: followed only with --follow-ftp, and then under the same host / directory rules
    site.ftp_tree = None
    if tape.chance(1, 8, 'site.ftp_links'):
        from harness import ftpcrawl
        site.ftp_tree = ftpcrawl.gen_tree(tape)
        targets = sorted(p for p, v in site.ftp_tree.items() if isinstance(v, bytes)) + ['/']
        mode = tape.choice(('no-follow-ftp', 'no-follow-ftp', 'follow-but-foreign-host', 'follow-but-host-excluded', 'follow'), 'site.ftp_links.mode')
        site.ftp_mode = mode
        if mode != 'no-follow-ftp':
            opts['follow_ftp'] = True
        if mode in ('follow-but-host-excluded', 'follow'):
            opts['span_hosts'] = True
            opts.pop('span_hosts_allow', None)
            if mode == 'follow-but-host-excluded':
                opts['exclude_hostnames'] = ['ftp.test']
            for k in ('domains', 'hostnames'):
                opts.pop(k, None)
        elif opts.get('span_hosts') or opts.get('span_hosts_allow'):
            opts.pop('span_hosts', None)
            opts.pop('span_hosts_allow', None)
            for k in ('domains', 'hostnames', 'exclude_domains', 'exclude_hostnames'):
                opts.pop(k, None)
        for _ in range(tape.between(1, 3, 'site.ftp_links.n')):
            src = pages[tape.draw(len(pages), 'site.ftp_links.from')]
            u = 'ftp://ftp.test' + targets[tape.draw(len(targets), 'site.ftp_links.to')]
            src.extra_html += '<a href="%s">ftp</a>\n' % u       # (kept out of the graph: the reference never fetches FTP URLs of the HTTP site)
    # --https-only: the crawl starts on an https origin of the same host; every http link it meets is out of scope
    if tape.chance(1, 10, 'opt.https_only'):
        sec = site.add_origin('https', 'site.test', 443, ip=main.ip)
        root_dir = '/d1/' if opts['no_parent'] else '/'
        hp = site.add(sec, root_dir + 'secure.html', 'page')
        hp2 = site.add(sec, root_dir + 'secure2.html', 'page')
        hp.links.append((hp2, refsite.spell(tape, hp, hp2)))
        for pg in pages[:tape.between(1, 4, 'opt.https_only.links')]:
            hp.links.append((pg, pg.url))                  # http links offered by the https page
            hp2.links.append((pg, pg.url))
        for a in assets[:2]:
            hp.inlines.append((a, a.url, 'css' if a.kind == 'css' else 'img'))      # http requisites as well
        starts = [hp]
        opts['https_only'] = True
    # robots.txt of an origin (the own one or the target of a redirect) failing for a while
    site.flaky_robots = []
    if opts['robots'] and tape.chance(1, 2, 'site.flaky_robots'):
        for o in site.origins:
            if tape.chance(1, 2, 'site.flaky_robots.o'):
                site.flaky_robots.append((o, tape.choice((1, 2, 5, 30), 'site.flaky_robots.n'), tape.choice(('503', 'reset'), 'site.flaky_robots.kind')))
    # robots.txt answered with a redirect that leaves the scope (another host, or a path a rule rejects)
    site.robots_redirect = None
    if opts['robots'] and not site.flaky_robots and tape.chance(1, 4, 'site.robots_redirect'):
        others = [o for o in site.origins if o.key() != main.key()]
        if others and tape.chance(1, 2, 'site.robots_redirect.foreign'):
            o2 = others[tape.draw(len(others), 'site.robots_redirect.o')]
            tgt = site.add(o2, '/robots-elsewhere.txt', 'robots')
        else:
            tgt = site.add(main, tape.choice(('/d1/d2/robots-alt.txt', '/other/robots-alt.txt', '/robots-alt.txt'), 'site.robots_redirect.path'), 'robots')
        tgt.body = b'User-agent: *\nDisallow:\n'
        tgt.content_type = 'text/plain'
        site.robots_redirect = (main, tgt, tape.choice((301, 302, 307), 'site.robots_redirect.code'))
    site.finalize()
    return site, starts, opts, flaky


def judge_c02(r, site, starts, opts, out, rows, own_hosts=None, phase=''):
    P = 'C02'
    server = out['server']
    own = own_hosts if own_hosts is not None else sorted({s.origin.host for s in starts})
    # the retry limit, counted independently of the recorded try count: runs of the item that requested its own URL
    runs = {}
    for e in server.log:
        rec = e['rec']
        if rec is not None and rec.get('item_run') is not None and canon(e['url']) == canon(rec['url']):
            runs.setdefault(canon(rec['url']), set()).add(rec['item_run'])
    tries = opts.get('tries') or 20
    # one try is one request for the item's own URL (these sites ask for no login, and no redirect leads back to its source)
    per_run = {}
    for e in server.log:
        rec = e['rec']
        if rec is not None and rec.get('item_run') is not None and canon(e['url']) == canon(rec['url']) and e['target'] != '/robots.txt':
            per_run[(canon(rec['url']), rec['item_run'])] = per_run.get((canon(rec['url']), rec['item_run']), 0) + 1
    for (u, run_no), n in per_run.items():
        if n > 1:
            r.violate(P, 'out-of-scope-request', 'first-request:tries:request-repeated-within-one-try' + (':resumed' if phase else ''),
                      '%s was requested %d times within one try (item run %r): the retry limit counts tries, so the URL is requested more often than --tries %r allows%s'
                      % (u, n, run_no, tries, phase))
            break
    for u, ss in runs.items():
        if len(ss) > tries:
            r.violate(P, 'out-of-scope-request', 'first-request:tries:counted-by-item-runs' + (':resumed' if phase else ''),
                      '%s was requested in %d separate runs of its item although --tries is %d%s' % (u, len(ss), tries, phase))
    # how each resource is referred to by each other resource, from the site graph: {(parent url, child url): {'link', 'inline'}}
    edges = {}
    for res in site.order:
        for d, _ in res.links:
            if not isinstance(d, str):
                edges.setdefault((res.url, d.url), set()).add('link')
        for d, _, _ in res.inlines:
            edges.setdefault((res.url, d.url), set()).add('inline')
    for e in server.log:
        rec = e['rec']
        if rec is None:
            r.violate(P, 'unattributed-request', 'no-item', 'request %s could not be attributed to a queue item%s' % (e['url'], phase))
            continue
        r.probes['requests_attributed'] += 1
        # the record the rules are applied to must itself be right: a URL that its parent merely links to (<a>) is not an
        # embedded object, whatever the parent is
        if rec.get('parent_url') and canon(e['url']) == canon(rec['url']):
            kinds = edges.get((canon(rec['parent_url']), canon(rec['url'])))
            if kinds == {'link'} and rec.get('inline_level'):
                r.violate(P, 'out-of-scope-request', 'linked-url-recorded-as-embedded' + (':resumed' if phase else ''),
                          '%s is an ordinary link of %s but is recorded (and judged) as an embedded object of inline level %r%s'
                          % (e['url'], rec['parent_url'], rec['inline_level'], phase))
        u = refscope.parse(canon(e['url']))
        record = {'level': rec['level'], 'inline_level': rec['inline_level'], 'try_count': rec['try_count'],
                  'parent': refscope.parse(canon(rec['parent_url'])) if rec['parent_url'] else None,
                  'root': refscope.parse(canon(rec['root_url'] or rec['url']))}       # (an item without a recorded root is its own root: a start URL)
        ok, failed = refscope.passes(u, record, opts, own)
        if ok:
            continue
        first = canon(e['url']) == canon(rec['url'])
        if e['target'] == '/robots.txt' and opts.get('robots'):
            continue        # judged below (robots.txt of an origin being visited)
        res_here = site.lookup(e.get('origin'), e.get('target')) if e.get('origin') else None
        if res_here is not None and res_here.kind == 'robots' and opts.get('robots'):
            # where a redirected /robots.txt led to: still the retrieval of the control file (RFC 9309 2.3.1.2 asks
            # crawlers to follow such redirects, also to another authority) - part of the documented exception
            r.probes['robots_redirect_followed'] += 1
            continue
        if not first and opts.get('strong_redirects', True) and failed == ['span_hosts']:
            r.probes['waiver_used'] += 1
            continue
        hop = 'first-request' if first else 'redirect-hop'
        r.violate(P, 'out-of-scope-request', '%s:%s%s' % (hop, '+'.join(failed), ':resumed' if phase else ''),
                  '%s requested for item %s (level %r, inline %r, parent %r, tries %r) although rule(s) %r fail; options %r; own hosts %r%s'
                  % (e['url'], rec['url'], rec['level'], rec['inline_level'], rec['parent_url'], rec['try_count'], failed,
                     {k: v for k, v in opts.items() if v not in (None, False, ())}, own, phase))


def judge_c02_robots(r, site, starts, opts, out, own_hosts=None, phase=''):
    """The robots.txt exception covers the control file of an origin that is being visited: the item on whose behalf
    it is fetched must have an in-scope URL (its own, or a redirect hop that was allowed) on that origin."""
    if not opts.get('robots'):
        return
    server = out['server']
    own = own_hosts if own_hosts is not None else sorted({s.origin.host for s in starts})
    visited = {}        # item url -> set of origins with an allowed request
    for e in server.log:
        rec = e['rec']
        if rec is None or e['target'] == '/robots.txt':
            continue
        visited.setdefault(rec['url'], set()).add(e.get('origin') or refscope.parse(canon(e['url']))['host'])
        # the origin an allowed request was redirected to is "being visited" as well: its robots.txt is obtained BEFORE the
        # hop is requested (and the hop is not made at all if that fetch fails)
        res = site.lookup(e.get('origin'), e.get('target')) if e.get('origin') else None
        if res is not None and res.kind == 'redirect' and res.redirect_to is not None:
            record = {'level': rec['level'], 'inline_level': rec['inline_level'], 'try_count': rec['try_count'],
                      'parent': refscope.parse(canon(rec['parent_url'])) if rec['parent_url'] else None,
                      'root': refscope.parse(canon(rec['root_url'] or rec['url']))}       # (an item without a recorded root is its own root: a start URL)
            ok, failed = refscope.passes(refscope.parse(canon(res.redirect_to.url)), record, opts, own)
            if ok or (opts.get('strong_redirects', True) and failed == ['span_hosts']):
                visited[rec['url']].add(res.redirect_to.origin.key())
    for e in server.log:
        rec = e['rec']
        if rec is None or e['target'] != '/robots.txt':
            continue
        origin = e.get('origin')
        u = refscope.parse(canon(rec['url']))
        record = {'level': rec['level'], 'inline_level': rec['inline_level'], 'try_count': rec['try_count'],
                  'parent': refscope.parse(canon(rec['parent_url'])) if rec['parent_url'] else None,
                  'root': refscope.parse(canon(rec['root_url'] or rec['url']))}       # (an item without a recorded root is its own root: a start URL)
        ok, failed = refscope.passes(u, record, opts, own)
        item_origin = (u['scheme'], u['host'], u['port'])
        if ok and origin == item_origin:
            continue
        if origin in visited.get(rec['url'], ()):
            continue
        r.violate('C02', 'out-of-scope-request', 'robots-txt-of-origin-not-being-visited%s' % (':resumed' if phase else ''),
                  'robots.txt of %r fetched on behalf of item %s, which is out of scope (%r) and made no allowed request to that origin%s'
                  % (origin, rec['url'], failed, phase))


def offered_probes(r, site, starts, opts):
    own = {s.origin.host for s in starts}
    root_dir = starts[0].dir
    for res in site.order:
        for d, sp in res.links:
            if d.origin.host not in own:
                r.probes['offered_foreign_host'] += 1
            elif opts.get('no_parent') and not d.path.startswith(root_dir):
                r.probes['offered_upward_path'] += 1
            if opts.get('reject_regex') and re.search(opts['reject_regex'], d.url):
                r.probes['offered_regex_rejected'] += 1
            if opts.get('exclude_directories') and any(d.path.startswith(x + '/') for x in opts['exclude_directories']):
                r.probes['offered_excluded_dir'] += 1
            if opts.get('reject') and (any(d.path.endswith(x) for x in opts['reject'] if not any(c in x for c in '*?[')) or
                                       any(fnmatch.fnmatchcase(d.path.rsplit('/', 1)[-1], x) for x in opts['reject'] if any(c in x for c in '*?['))):
                r.probes['offered_rejected_suffix'] += 1
        if res.kind == 'redirect' and res.redirect_to.origin.host != res.origin.host:
            r.probes['cross_host_redirect'] += 1
    for k in ('span_hosts_allow', 'domains', 'hostnames', 'https_only'):
        if opts.get(k):
            r.probes[k] += 1
    if opts.get('tries') not in (None, 20):
        r.probes['tries'] += 1


def run(tape, prop, tier):
    r = Result()
    sandbox = tempfile.mkdtemp(prefix='wv-crawl-%d-' % os.getpid(), dir='/dev/shm')
    cwd = os.getcwd()
    try:
        os.chdir(sandbox)
        if prop == 'C20':
            from harness import robots as hrobots
            return hrobots.run_c20(tape, r, tier, sandbox)
        if prop == 'C02' and tape.chance(1, 10, 'ftp_variant'):
            from harness import ftpscope
            rr = ftpscope.run(tape, r, tier, sandbox)
            rr.sub = 'ftp'
            return rr
        if prop == 'C02' and tape.chance(1, 8, 'resumed_history'):
            # resumed histories (kill, then the same command again) are judged by the same monitor
            os.chdir(cwd)
            from harness import crash
            rr = crash.run(tape, 'C02', tier)
            rr.sub = 'resumed'
            return rr
        flaky = []
        if prop == 'C01':
            site, starts, opts = gen_c01(tape, tier)
        else:
            site, starts, opts, flaky = gen_c02(tape, tier)
        # (more workers than connections per host - 6 - make workers wait for one another's connections)
        concurrency = tape.choice((1, 2, 3, 4, 8, 12), 'concurrency')
        if prop == 'C01' and opts.get('level') not in ('inf', None) and opts.get('page_requisites') and tape.chance(1, 2, 'concurrency.one'):
            # depth limit and embedded documents with one worker: here the recorded depth of every URL is its shortest distance
            # (no answer-order race, known finding C01-K2), so a URL cut off by the limit is a verdict
            concurrency = 1
        dbpath = os.path.join(sandbox, 'db.sqlite')
        argv = argv_for(opts, [s.url for s in starts], dbpath)
        no_keepalive = tape.chance(1, 4, 'srv.no_keepalive')       # a server that closes after every response

        ftp_servers = []

        def setup(h, server, net):
            if no_keepalive:
                h.keepalive_server = False
                r.probes['server_closes_after_every_response'] += 1
            if concurrency > 6:
                r.probes['more_workers_than_connections_per_host'] += 1
            if getattr(site, 'ftp_tree', None) is not None and prop == 'C02':
                from harness import ftpcrawl
                ftp_servers.append(ftpcrawl.FtpTreeServer(h, net, site.ftp_tree, mlsd=tape.chance(1, 2, 'site.ftp.mlsd')))
            for o, n, kind in getattr(site, 'flaky_robots', []):
                st = {'left': n}

                def rbeh(conn, entry, rs, st=st, kind=kind):
                    entry['robots'] = True
                    if st['left'] > 0:
                        st['left'] -= 1
                        r.faults['robots_' + kind] += 1
                        r.probes['robots_fetch_failed'] += 1
                        if kind == '503':
                            server.send(conn, 503, 'Busy', [('Content-Type', 'text/plain')], b'busy')
                        else:
                            conn.reset()
                    else:
                        server.send(conn, 404, 'Not Found', [('Content-Type', 'text/plain')], b'no robots here')
                server.behaviour[(o.key(), '/robots.txt')] = rbeh
            if getattr(site, 'robots_redirect', None):
                o, tgt, code = site.robots_redirect

                def rred(conn, entry, rs, tgt=tgt, code=code):
                    entry['robots'] = True
                    r.probes['robots_redirected_out'] += 1
                    server.send(conn, code, 'Moved', [('Location', tgt.url), ('Content-Type', 'text/plain')], b'moved')
                server.behaviour[(o.key(), '/robots.txt')] = rred
            for res, n in flaky:
                state = {'left': n}

                def beh(conn, entry, rs, state=state, how=tape.choice(('503', '503', 'drop'), 'site.flaky.how')):
                    if state['left'] > 0:
                        state['left'] -= 1
                        r.probes['retry'] += 1
                        if how == 'drop':
                            # the request is read, then the connection is dropped before a single byte of an answer
                            r.faults['http_dropped_before_answer'] += 1
                            conn.reset()
                        else:
                            r.faults['http_5xx'] += 1
                            server.send(conn, 503, 'Busy', [('Content-Type', 'text/plain')], b'busy')
                    else:
                        server.respond_resource(conn, rs, entry)
                server.behaviour[(res.origin.key(), res.target)] = beh
        out = run_app(tape, r, site, argv, concurrency, sandbox, setup=setup)
        rows = read_rows(dbpath)
        feats = graph_features(site, starts)
        for f in feats:
            r.probes[f] += 1
        if concurrency > 1:
            r.probes['concurrency>1'] += 1
        if opts.get('level') not in (5, 'inf'):
            r.probes['depth_limited'] += 1
        if opts.get('no_parent'):
            r.probes['no_parent'] += 1
        if opts.get('accept_regex') or opts.get('reject_regex'):
            r.probes['regex'] += 1
        if len(starts) > 1:
            r.probes['multi_start'] += 1
        if getattr(site, 'big_page', None):
            r.probes['page_with_over_1000_links'] += 1
        if opts.get('no_keep_alive'):
            r.probes['keepalive_off'] += 1
        if prop == 'C01':
            judge_c01(r, site, starts, opts, out, rows, concurrency)
            nreq = len(out['server'].log)
            r.nontrivial = nreq >= 4 and bool(feats & {'cycle', 'diamond', 'alt_spelling'})
        else:
            offered_probes(r, site, starts, opts)
            if out.get('hang'):
                r.violate('C02', 'no-termination', 'hang', out['hang'][:1200])
            if out.get('exception'):
                r.violate('C02', 'crash', 'exception-escaped-app-run', out['exception'][-1200:])
            judge_c02(r, site, starts, opts, out, rows)
            judge_c02_robots(r, site, starts, opts, out)
            if ftp_servers:
                r.probes['ftp_links_offered'] += 1
                for e in ftp_servers[0].log:
                    if site.ftp_mode == 'follow':
                        r.probes['ftp_link_followed'] += 1
                        continue
                    rec = e['rec'] or {}
                    r.violate('C02', 'out-of-scope-request', 'ftp-command-for-rejected-url:' + site.ftp_mode,
                              '%s %s was sent to the FTP server for item %s although its URL is out of scope (%s); options %r'
                              % (e['verb'], e['target'], rec.get('url'), site.ftp_mode, {k: v for k, v in opts.items() if v not in (None, False, ())}))
            offered = sum(r.probes.get(k, 0) for k in ('offered_foreign_host', 'offered_upward_path', 'offered_regex_rejected', 'offered_excluded_dir'))
            r.nontrivial = offered >= 1 and len(out['server'].log) >= 3
        r.workload = ({k: v for k, v in opts.items() if v not in (None, False, ())}, [s.url for s in starts], concurrency,
                      [(x.kind, x.url, [sp for _, sp in x.links], [sp for _, sp, _ in x.inlines], x.redirect_spelling) for x in site.order])
        r.sample = {'options': {k: v for k, v in opts.items() if v not in (None, False, ())}, 'argv': argv[:], 'starts': [s.url for s in starts],
                    'concurrency': concurrency,
                    'site': [{'kind': x.kind, 'url': x.url, 'links': [sp for _, sp in x.links][:6], 'inline': [sp for _, sp, _ in x.inlines][:4],
                              'redirect': x.redirect_spelling} for x in site.order][:16],
                    'requests': [(round(e['t'], 3), e['url'], e['rec'] and e['rec']['url']) for e in out['server'].log][:40],
                    'exit': out['exit'], 'rows': [(x['url'], x['status'], x['level'], x['inline_level']) for x in rows][:30]}
        for e in out['server'].log:
            r.log('t=%.3f %s %s item=%s' % (e['t'], e['method'], e['url'], e['rec'] and (e['rec']['url'], e['rec']['level'], e['rec']['inline_level'])))
        r.log('exit=%r hang=%r' % (out['exit'], out.get('hang')))
    finally:
        os.chdir(cwd)
        shutil.rmtree(sandbox, ignore_errors=True)
    seen = set()
    uniq = []
    for v in r.violations:
        if (v.prop, v.cls, v.sig) not in seen:
            seen.add((v.prop, v.cls, v.sig))
            uniq.append(v)
    r.violations = uniq
    return r
