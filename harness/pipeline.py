"""C13 - the pipeline runs every item through every task once, and always finishes
(DESIGN section 4, C13).

Real: wpull.pipeline.pipeline.{Pipeline,ItemQueue,Producer,Worker,PipelineSeries}, wpull.application.app.Application
Stub: item source and tasks (instrumented, tape-drawn latencies/exceptions), clock
"""
import asyncio
import signal

from simlib.env import SimEnv, SimDeadlock, SimBudgetExceeded, task_stacks
from simlib.runner import Result
from simlib import simset

import wpull.pipeline.pipeline as wpipe
from wpull.pipeline.pipeline import Pipeline, ItemQueue, ItemSource, ItemTask, PipelineSeries
from wpull.application.app import Application

simset.inject(wpipe)

P = 'C13'
BUDGETS = {'C13': (40, 900, 200)}
LEVELS = {'C13': 'exploration'}
PROBES = {'C13': ['producer_blocked_in_put', 'stop_while_producer_blocked', 'stop_while_paused', 'paused',
                  'task_exception', 'source_exception', 'concurrency_changed', 'stop_called', 'app_variant',
                  'stop_with_item_queued', 'ended_paused', 'action_before_first_producer_step', 'task_returns_a_future']}
INFO = {'C13': {
    'rule': 'workload = (K items 0..12, T tasks 1..3, latency per source call and per (task,item), optional exception '
            'in one task call or one source call, controller actions concurrency:=c (0..4) and stop() at drawn virtual '
            'times, plain Pipeline or Application+PipelineSeries variant); non-trivial iff K>=2 and at least one '
            'controller action or exception fired while items were still unprocessed; distinct by full drawn workload',
    'components': {'real': ['wpull.pipeline.pipeline.Pipeline/ItemQueue/Producer/Worker/PipelineSeries',
                            'wpull.application.app.Application (run, stop, signal wiring) in the app variant',
                            'asyncio 3.12 PriorityQueue/Condition/Event/wait'],
                   'stub': ['ItemSource and ItemTasks (instrumented)', 'clock (virtual)', 'set order (SimSet)']},
    'assumptions': ['asyncio ready queue is FIFO', 'an item counts as taken when it is popped from the ItemQueue\'s '
                    'priority queue (logged synchronously by a PriorityQueue subclass installed by the harness)'],
}}

LAT = (0.0, 0.01, 0.1, 0.5, 1.0, 3.0)


class Boom(Exception):
    pass




class LogPQ(asyncio.PriorityQueue):
    def _get(self):
        entry = super()._get()
        self.h.on_pop(entry)
        return entry


class LogItemQueue(ItemQueue):
    def __init__(self, h):
        super().__init__()
        q = LogPQ()
        q.h = h
        if hasattr(self, '_queue'):
            self._queue = q
            h.pop_logged = True

    @asyncio.coroutine
    def put_item(self, item):
        self._h_blocked = self._queue.qsize() > 0 if hasattr(self, '_queue') else False
        h = self._queue.h if hasattr(self._queue, 'h') else None
        if h is not None and self._h_blocked:
            h.producer_blocked += 1
            h.r.probes['producer_blocked_in_put'] += 1
        try:
            yield from super().put_item(item)
        finally:
            if h is not None and self._h_blocked:
                h.producer_blocked -= 1


class Harness:
    def __init__(self, r, loop):
        self.r = r
        self.loop = loop
        self.supplied = []          # items returned by the source
        self.popped = {}            # item -> time
        self.starts = {}            # item -> list of (task index)
        self.running = set()        # (item, task) running now
        self.done = {}              # item -> number of tasks completed
        self.stop_time = None
        self.stop_seq = None
        self.seq = 0
        self.pop_seq = {}
        self.pop_logged = False
        self.producer_blocked = 0
        self.concurrency_now = 1
        self.exc_fired = False

    def on_pop(self, entry):
        item = entry[2]
        self.seq += 1
        if isinstance(item, str):
            self.popped[item] = self.loop.time()
            self.pop_seq[item] = self.seq
            self.r.events.append(('pop', item))


class Source(ItemSource):
    def __init__(self, h, name, items, lats, fail_at):
        self.h = h
        self.name = name
        self.items = list(items)
        self.lats = lats
        self.fail_at = fail_at
        self.calls = 0

    @asyncio.coroutine
    def get_item(self):
        i = self.calls
        self.calls += 1
        lat = self.lats[i] if i < len(self.lats) else 0.0
        if lat:
            yield from asyncio.sleep(lat)
        if self.fail_at is not None and i == self.fail_at:
            self.h.exc_fired = True
            self.h.r.probes['source_exception'] += 1
            self.h.r.faults['source_exception'] += 1
            self.h.r.log('t=%.3f source raises' % self.h.loop.time())
            raise Boom('source')
        if self.items:
            it = self.items.pop(0)
            self.h.supplied.append(it)
            self.h.r.log('t=%.3f source supplies %s' % (self.h.loop.time(), it))
            return it
        return None


class Task(ItemTask):
    def __init__(self, h, index, lat, fail):
        self.h = h
        self.index = index
        self.lat = lat      # dict item -> latency
        self.fail = fail    # item name or None

    @asyncio.coroutine
    def process(self, item):
        h, r = self.h, self.h.r
        if not isinstance(item, str) or item not in h.supplied:
            # (describe a foreign object by its type: a repr with a memory address would make the trace differ per process)
            what = item if isinstance(item, str) else '<%s object>' % type(item).__name__
            r.violate(P, 'foreign-item', 'processed-item-not-from-source', 'task %d got %s' % (self.index, what))
            item = what
        key = (item, self.index)
        if key in h.running:
            r.violate(P, 'concurrent-self', 'task-running-twice-for-item', '%r' % (key,))
        prev = h.starts.setdefault(item, [])
        if self.index in prev:
            r.violate(P, 'more-than-once', 'task-repeated-for-item', 'task %d ran again for %s' % (self.index, item))
        elif prev != list(range(self.index)):
            r.violate(P, 'order', 'tasks-out-of-order', 'item %s: task %d started after %r' % (item, self.index, prev))
        if any(k[0] == item for k in h.running):
            r.violate(P, 'order', 'two-tasks-concurrently-on-item', 'item %s' % item)
        prev.append(self.index)
        h.running.add(key)
        r.events.append(('start', key))
        r.log('t=%.3f task%d start %s' % (h.loop.time(), self.index, item))
        try:
            lat = self.lat.get(item, 0.0)
            if lat:
                yield from asyncio.sleep(lat)
            if self.fail == item:
                h.exc_fired = True
                r.probes['task_exception'] += 1
                r.faults['task_exception'] += 1
                r.log('t=%.3f task%d raises on %s' % (h.loop.time(), self.index, item))
                raise Boom('task')
        finally:
            h.running.discard(key)
        h.done[item] = h.done.get(item, 0) + 1
        r.events.append(('end', key))


class FutureTask(Task):
    """The same task written as a plain function that hands back a future of its work (what `yield from` in the worker accepts
    just as well as a coroutine: any awaitable)."""

    def process(self, item):
        return asyncio.ensure_future(Task.process(self, item))


def build_pipeline(tape, h, name, K, T, faults_on):
    items = ['%s.i%d' % (name, i) for i in range(K)]
    src_lats = [LAT[tape.draw(len(LAT), 'src.lat')] for _ in range(K + 1)]
    fail_src = None
    fail_task = (None, None)
    if faults_on:
        kind = tape.draw(3, 'exc.kind')
        if kind == 1 and K:
            fail_task = (tape.draw(T, 'exc.task'), items[tape.draw(K, 'exc.item')])
        elif kind == 2:
            fail_src = tape.draw(K + 1, 'exc.src')
    tasks = []
    for ti in range(T):
        lat = {it: LAT[tape.draw(len(LAT), 'task.lat')] for it in items}
        cls = FutureTask if tape.chance(1, 5, 'task.as_future') else Task
        if cls is FutureTask:
            h.r.probes['task_returns_a_future'] += 1
        tasks.append(cls(h, ti, lat, fail_task[1] if fail_task[0] == ti else None))
    src = Source(h, name, items, src_lats, fail_src)
    q = LogItemQueue(h)
    p = Pipeline(src, tasks, q)
    desc = {'K': K, 'T': T, 'src_lat': src_lats, 'task_lat': [[t.lat[i] for i in items] for t in tasks],
            'fail_src': fail_src, 'fail_task': fail_task}
    return p, items, desc


def run(tape, prop, tier):
    r = Result()
    app_variant = tape.chance(1, 4, 'app_variant')
    faults_on = tape.chance(1, 3, 'exc_on')
    control_on = tape.chance(2, 3, 'control_on')
    r.sub = ('app' if app_variant else 'pipeline') + ('+exc' if faults_on else '') + ('+control' if control_on else '')
    K = tape.between(0, 12 if tier == 'thorough' else 8, 'K')
    T = tape.between(1, 3, 'T')
    simset.set_tape(tape)
    env = SimEnv(tape, max_callbacks=150_000, max_vtime=10_000.0)
    workload = {'app': app_variant, 'K': K, 'T': T}
    try:
        with env:
            loop = env.loop
            h = Harness(r, loop)
            p, items, desc = build_pipeline(tape, h, 'p', K, T, faults_on)
            workload['pipeline'] = desc
            c0 = tape.choice((1, 2, 3, 4, 1, 2, 0), 'c0')      # 0: paused before process() is even called
            p.concurrency = c0
            h.concurrency_now = c0
            workload['c0'] = c0
            actions = []
            if control_on:
                for _ in range(tape.between(1, 4, 'nactions')):
                    when = tape.choice((0.0, 0.005, 0.05, 0.3, 0.7, 1.2, 2.5, 4.0, -1.0), 'act.when')    # -1: call_soon, i.e. after process() started but before the producer task's first step
                    kind = tape.draw(6, 'act.kind')      # 0..4 -> concurrency := kind ; 5 -> stop
                    actions.append((when, 'stop' if kind == 5 else kind))
            actions.sort(key=lambda a: a[0])
            # equal times: keep list order (timer heap order among equal deadlines is not FIFO)
            actions = [(w + i * 1e-6, k) for i, (w, k) in enumerate(actions)]
            # the last concurrency action must leave the pipeline unpaused, otherwise "never returns" is by design
            last_c = [a for a in actions if a[1] != 'stop']
            # (when an exception is planned the run may end paused: a failure of an item in flight must surface even then)
            if last_c and last_c[-1][1] == 0 and not any(a[1] == 'stop' for a in actions) and not (faults_on and tape.chance(1, 2, 'end_paused')):
                actions.append((last_c[-1][0] + 1.0, tape.choice((1, 2, 3), 'act.resume')))
            workload['actions'] = actions
            target = p
            app = None
            pipes = [p]
            if app_variant:
                r.probes['app_variant'] += 1
                h2 = h
                p2, items2, desc2 = build_pipeline(tape, h, 'q', tape.between(0, 3, 'K2'), 1, False)
                p2.skippable = tape.chance(1, 2, 'skippable')
                workload['second'] = dict(desc2, skippable=p2.skippable)
                series = PipelineSeries([p, p2])
                series.concurrency_pipelines.add(p)
                app = Application(series)
                app.setup_signal_handlers()
                pipes = [p, p2]

            stopped = [False]
            had_unprocessed_at_action = [False]

            def act(kind):
                unprocessed = len(h.supplied) < K or any(h.done.get(i, 0) < T for i in h.supplied)
                if unprocessed:
                    had_unprocessed_at_action[0] = True
                if kind == 'stop':
                    if stopped[0]:
                        return
                    stopped[0] = True
                    h.stop_time = loop.time()
                    h.stop_seq = h.seq
                    r.probes['stop_called'] += 1
                    r.faults['stop'] += 1
                    if h.producer_blocked:
                        r.probes['stop_while_producer_blocked'] += 1
                    if h.concurrency_now == 0:
                        r.probes['stop_while_paused'] += 1
                    r.events.append(('stop', 0))
                    r.log('t=%.3f stop() supplied=%d popped=%d' % (loop.time(), len(h.supplied), len(h.popped)))
                    if app is not None:
                        cb, args = loop.signal_handlers[signal.SIGINT]
                        cb(*args)
                    else:
                        p.stop()
                else:
                    r.probes['concurrency_changed'] += 1
                    r.faults['concurrency:=%d' % kind] += 1
                    if kind == 0:
                        r.probes['paused'] += 1
                    h.concurrency_now = kind
                    r.events.append(('conc', kind))
                    r.log('t=%.3f concurrency := %d' % (loop.time(), kind))
                    if app is not None:
                        app._pipeline_series.concurrency = kind
                    else:
                        p.concurrency = kind

            outcome = {}

            @asyncio.coroutine
            def main():
                for when, kind in actions:
                    if when < 0:
                        loop.call_soon(act, kind)
                        r.probes['action_before_first_producer_step'] += 1
                    else:
                        loop.call_later(when, act, kind)
                try:
                    if app is not None:
                        outcome['exit'] = yield from app.run()
                    else:
                        yield from p.process()
                    outcome['returned'] = True
                except Boom as e:
                    outcome['raised'] = str(e)
                outcome['t'] = loop.time()

            finished_normally = False
            try:
                env.run(main())
                finished_normally = True
            except SimDeadlock as e:
                if h.concurrency_now == 0 and not stopped[0] and not h.exc_fired:
                    # paused for good and nothing failed: waiting is what pause means
                    r.probes['ended_paused'] += 1
                else:
                    ctx = 'stop' if stopped[0] else ('exception' if h.exc_fired else 'plain')
                    sig = 'hang-after-' + ctx
                    if h.concurrency_now == 0:
                        sig += '-while-paused'
                    r.violate(P, 'hang', sig, 'process() never returns (%s); supplied=%d popped=%d done=%s; tasks: %s'
                              % (e, len(h.supplied), len(h.popped), sum(1 for i in h.done if h.done[i] >= T), ' | '.join(task_stacks(loop))))
            except SimBudgetExceeded as e:
                r.violate(P, 'hang', 'budget', '%s; tasks: %s' % (e, ' | '.join(task_stacks(loop))))
            if finished_normally:
                r.log('t=%.3f finished %r' % (loop.time(), outcome))
                # O3/O5: termination semantics
                if h.exc_fired:
                    if app is None and 'raised' not in outcome:
                        r.violate(P, 'error-swallowed', 'exception-not-surfaced',
                                  'a task/source raised but process() returned normally')
                    if app is not None and outcome.get('exit') == 0:
                        r.violate(P, 'error-swallowed', 'app-exit-0-after-exception', 'exit code 0 after a task/source exception')
                elif not stopped[0]:
                    # every supplied item through every task exactly once, and all K supplied
                    nsup = sum(1 for i in h.supplied if i.startswith('p.'))
                    if nsup != K:
                        r.violate(P, 'lost-item', 'source-not-drained', 'source supplied %d of %d items but process() returned'
                                  % (nsup, K))
                    for it in h.supplied:
                        if h.done.get(it, 0) != T and it.startswith('p.'):
                            r.violate(P, 'lost-item', 'item-not-fully-processed',
                                      'item %s completed %d of %d tasks although no stop was requested' % (it, h.done.get(it, 0), T))
                            break
                    if app is not None:
                        for it in items2:
                            if h.done.get(it, 0) != 1:
                                r.violate(P, 'lost-item', 'second-pipeline-item-lost', 'item %s not processed' % it)
                                break
                if stopped[0] and not h.exc_fired and h.pop_logged:
                    # O4: nothing dequeued after the stop request (first pipeline only; later pipelines run
                    # unless skippable)
                    late = [it for it, s in h.pop_seq.items() if s > h.stop_seq and it.startswith('p.')]
                    if late:
                        r.violate(P, 'work-after-stop', 'item-dequeued-after-stop',
                                  'items %r were taken from the queue after stop()' % (late,))
                    if app is not None and p2.skippable and any(it.startswith('q.') for it in h.popped):
                        if h.stop_time is not None and min(h.popped[i] for i in h.popped if i.startswith('q.')) >= h.stop_time:
                            r.violate(P, 'work-after-stop', 'skippable-pipeline-ran', 'skippable pipeline processed items after stop')
                # in-flight items must have been completed before process() returned (no orphan work)
                if h.running and not h.exc_fired:
                    r.violate(P, 'returned-early', 'process-returned-with-items-in-flight', '%r' % (sorted(h.running),))
            r.sim_time = loop.time()
            r.callbacks = loop.callbacks
            if stopped[0] and any(i for i in h.supplied if i not in h.popped):
                r.probes['stop_with_item_queued'] += 1
            r.nontrivial = K >= 2 and (had_unprocessed_at_action[0] or h.exc_fired)
    finally:
        simset.set_tape(None)
    r.workload = workload
    r.sample = {'workload': workload, 'violations': [v.cls for v in r.violations], 'sim_time': r.sim_time}
    seen = set()
    uniq = []
    for v in r.violations:
        if (v.cls, v.sig) not in seen:
            seen.add((v.cls, v.sig))
            uniq.append(v)
    r.violations = uniq
    return r
