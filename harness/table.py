"""C14 - the URL table behaves as a keyed set with a status state machine, also across close/reopen
(DESIGN section 4, C14): operation histories against a dict-based reference model, in lock-step.

Real: wpull.database.sqltable.SQLiteURLTable on a file (tmpfs), wpull.database.wrap.URLTableHookWrapper (half the runs),
      wpull.database.sqlmodel, SQLAlchemy 2.0 + SQLite (WAL)
Stub: nothing (storage fault surface = close + reopen)
"""
import os
import shutil
import tempfile

from simlib import compat
compat.install()
from simlib.runner import Result
from refs.table import ModelTable, FIELDS

from wpull.database.sqltable import SQLiteURLTable
from wpull.database.wrap import URLTableHookWrapper
from wpull.database.base import NotFound, AddURLInfo
from wpull.pipeline.item import Status, URLProperties, URLData, URLResult, LinkType

P = 'C14'
BUDGETS = {'C14': (45, 900, 20)}
LEVELS = {'C14': 'exploration'}
PROBES = {'C14': ['reopen', 'add_duplicate_existing', 'add_duplicate_in_batch', 'add_heterogeneous_batch', 'check_out_hit',
                  'check_out_notfound', 'check_out_level', 'check_in_increment', 'check_in_missing_url', 'release_with_in_progress',
                  'remove_existing', 'readd_after_remove', 'visits', 'wrapper', 'unparseable_url', 'non_ascii_url', 'update_one', 'check_in_held_url', 'check_in_after_remove_and_readd', 'check_out_repeated_after_notfound']}
INFO = {'C14': {
    'rule': 'history = 1..40 operations drawn from add_many (batches with internal duplicates, with/without properties/data, '
            'odd URL strings), check_out(status[,level]), check_in, update_one, release, remove_many, add_visits/get_revisit_id, '
            'count/get_one/contains/get_all/get_hostnames/get_root_url_todo_count and close+reopen; non-trivial iff >= 6 operations '
            'of which >= 1 reopen or >= 1 duplicate add, with >= 3 distinct operation kinds; distinct by full history',
    'interleaving_measure': 'not applicable (sequential API); distinct operation-kind sequences are counted instead',
    'components': {'real': ['wpull.database.sqltable.SQLiteURLTable (file on tmpfs, WAL)', 'wpull.database.sqlmodel',
                            'wpull.database.wrap.URLTableHookWrapper (half of the runs)', 'SQLAlchemy 2.0.54, sqlite3'],
                   'stub': []},
    'assumptions': ['SQLAlchemy legacy select([...]) shim (compat layer)', 'check_out with a level bound: both "<" (code) and "<=" '
                    '(docstring) readings are accepted at the boundary',
                    'an add_many that raises ValueError for an unparseable URL must leave the table unchanged'],
}}

HOSTS = ('a.test', 'b.test', 'xn--bcher-kva.test')
STATUSES = ('todo', 'in_progress', 'done', 'error', 'skipped')


def gen_url(tape):
    k = tape.draw(15, 'url.kind')
    host = HOSTS[tape.draw(len(HOSTS), 'url.host')]
    if k < 9:
        return 'http://%s/p%d' % (host, tape.draw(8, 'url.n'))
    if k == 9:
        return 'https://%s:8443/q?x=%d&y=%%C3%%A9' % (host, tape.draw(3, 'url.n'))
    if k == 10:
        return 'http://%s/café/☃%d' % (host, tape.draw(3, 'url.n'))      # non-ASCII (not normalised)
    if k == 11:
        return 'ftp://%s/dir/file%d.txt' % (host, tape.draw(3, 'url.n'))
    if k == 12:
        return 'http://%s/%s' % (host, 'l' * (300 + tape.draw(3, 'url.n')))
    if k == 13:
        return 'http://%s/P%d' % (host, tape.draw(4, 'url.n'))          # differs from /p<n> by letter case only: a distinct URL
    return ('', 'http://[bad', 'not a url', 'http://')[tape.draw(4, 'url.bad')]


def gen_props(tape, urls_pool):
    if tape.chance(1, 3, 'props.none'):
        return None, None
    p = URLProperties()
    d = {}
    if tape.chance(2, 3, 'props.level'):
        p.level = d['level'] = tape.draw(5, 'props.level.v')
    # a properties object always names parent and root, as every caller in wpull does (add_child_url);
    # a properties object without them makes add_many raise StatementError (missing bind parameter) - API misuse, not generated
    p.parent_url = d['parent_url'] = 'http://a.test/p%d' % tape.draw(8, 'props.parent.v')
    p.root_url = d['root_url'] = 'http://a.test/p0' if tape.chance(1, 2, 'props.root') else p.parent_url
    if tape.chance(1, 4, 'props.inline'):
        p.inline_level = d['inline_level'] = 1 + tape.draw(3, 'props.inline.v')
    if tape.chance(1, 4, 'props.link_type'):
        lt = tape.choice(('html', 'css', 'media', 'file'), 'props.link_type.v')
        p.link_type = LinkType(lt)
        d['link_type'] = lt
    if tape.chance(1, 6, 'props.status'):
        st = tape.choice(('todo', 'skipped', 'done', 'error'), 'props.status.v')
        p.status = Status(st)
        d['status'] = st
    if tape.chance(1, 6, 'props.try'):
        p.try_count = d['try_count'] = tape.draw(4, 'props.try.v')
    if tape.chance(1, 6, 'props.prio'):
        p.priority = d['priority'] = tape.draw(3, 'props.prio.v')
    return p, d


def real_snapshot(table):
    out = {}
    for rec in table.get_all():
        out[rec.url] = (rec.status.value, rec.try_count, rec.level, rec.inline_level,
                        rec.link_type.value if rec.link_type else None, rec.priority, rec.parent_url, rec.root_url,
                        rec.post_data, rec.status_code, rec.filename)
    return out


def run(tape, prop, tier):
    r = Result()
    base = tempfile.mkdtemp(prefix='wv-tab-%d-' % os.getpid(), dir='/dev/shm')
    path = os.path.join(base, 'db.sqlite')
    use_wrapper = tape.chance(1, 2, 'wrapper')
    if use_wrapper:
        r.probes['wrapper'] += 1

    def open_table():
        t = SQLiteURLTable(path)
        return URLTableHookWrapper(t) if use_wrapper else t
    table = None
    model = ModelTable()
    history = []
    removed = set()
    follow = []
    last_notfound = None
    held = []
    kinds = []
    n = tape.between(1, 40 if tier == 'thorough' else 25, 'nops')
    try:
        table = open_table()
        for step in range(n):
            op = tape.weighted([(8, 'add'), (6, 'check_out'), (6, 'check_in'), (2, 'update'), (2, 'release'), (2, 'remove'),
                                (2, 'visits'), (3, 'query'), (3, 'reopen')], 'op')
            # a check-out that found nothing is often followed by the operation that makes such rows exist again, and then by the
            # same check-out (anything remembered about "nothing there" must be forgotten in between)
            if follow:
                op = follow.pop(0)
            elif last_notfound is not None and tape.chance(1, 2, 'op.after_notfound'):
                follow = ['release' if tape.chance(2, 3, 'op.after_notfound.k') else 'add', 'check_out_again']
                op = follow.pop(0)
            kinds.append(op)
            desc = None
            try:
                if op == 'add':
                    k = tape.between(1, 5, 'add.n')
                    batch = []
                    mbatch = []
                    het = set()
                    bad = False
                    for _ in range(k):
                        url = gen_url(tape)
                        if removed and tape.chance(1, 4, 'add.removed'):
                            rl = sorted(removed)
                            url = rl[tape.draw(len(rl), 'add.removed.i')]        # add a URL again that was removed earlier
                        if mbatch and tape.chance(1, 5, 'add.dup'):
                            url = mbatch[tape.draw(len(mbatch), 'add.dup.i')][0]
                        props, pd = gen_props(tape, None)
                        data = dd = None
                        if tape.chance(1, 8, 'add.post'):
                            data = URLData()
                            data.post_data = 'a=1&b=%d' % tape.draw(3, 'add.post.v')
                            dd = {'post_data': data.post_data}
                        batch.append(AddURLInfo(url, props, data))
                        mbatch.append((url, pd, dd))
                        het.add(frozenset((pd or {}).keys()))
                        if url in ('', 'http://[bad', 'not a url', 'http://'):
                            bad = True
                            r.probes['unparseable_url'] += 1
                        if any(ord(c) > 127 for c in url):
                            r.probes['non_ascii_url'] += 1
                    if len(het) > 1:
                        r.probes['add_heterogeneous_batch'] += 1
                    if any(u in model.rows for u, _, _ in mbatch):
                        r.probes['add_duplicate_existing'] += 1
                    if len({u for u, _, _ in mbatch}) < len(mbatch):
                        r.probes['add_duplicate_in_batch'] += 1
                    if any(u in removed for u, _, _ in mbatch):
                        r.probes['readd_after_remove'] += 1
                    desc = ('add_many', [(u, p, d) for u, p, d in mbatch])
                    try:
                        got = list(table.add_many(batch))
                    except ValueError as e:
                        if not bad:
                            raise
                        desc = ('add_many(raised ValueError)', [(u, p, d) for u, p, d in mbatch])
                        got = None
                    if got is not None:
                        want = model.add_many(mbatch)
                        if sorted(got) != sorted(want):
                            r.violate(P, 'add-result', 'new-urls-differ' + (':heterogeneous-batch' if len(het) > 1 else ''),
                                      'step %d add_many%r reported new %r, model %r' % (step, [(u, p) for u, p, d in mbatch], sorted(got), sorted(want)))
                elif op in ('check_out', 'check_out_again'):
                    st = tape.choice(('todo', 'error', 'todo', 'done', 'in_progress', 'skipped'), 'co.status')
                    level = None
                    if tape.chance(1, 4, 'co.level'):
                        level = tape.draw(5, 'co.level.v')
                        r.probes['check_out_level'] += 1
                    if op == 'check_out_again' and last_notfound is not None:
                        st, level = last_notfound
                        r.probes['check_out_repeated_after_notfound'] += 1
                    last_notfound = None
                    desc = ('check_out', st, level)
                    strict = model.candidates(st, level, inclusive=False)
                    loose = model.candidates(st, level, inclusive=True)
                    try:
                        rec = table.check_out(Status(st), level) if level is not None else table.check_out(Status(st))
                    except NotFound:
                        r.probes['check_out_notfound'] += 1
                        last_notfound = (st, level)
                        if strict:
                            r.violate(P, 'check-out', 'notfound-although-candidates', 'step %d check_out(%s,%r): NotFound but model has %r' % (step, st, level, strict[:5]))
                    else:
                        r.probes['check_out_hit'] += 1
                        if rec.url not in loose:
                            r.violate(P, 'check-out', 'returned-non-candidate', 'step %d check_out(%s,%r) returned %r (status in model %r); candidates %r'
                                      % (step, st, level, rec.url, model.rows.get(rec.url, {}).get('status'), loose[:5]))
                        else:
                            mrow = model.rows[rec.url]
                            if (rec.status.value, rec.try_count, rec.level) not in ((st, mrow['try_count'], mrow['level']), ('in_progress', mrow['try_count'], mrow['level'])):
                                r.violate(P, 'check-out', 'returned-record-fields', 'step %d: record %r vs model %r' % (step, (rec.status, rec.try_count, rec.level), mrow))
                            model.check_out(rec.url)
                            if rec.url not in held:
                                held.append(rec.url)
                elif op == 'check_in':
                    pool = list(model.rows) or ['http://a.test/p0']
                    if tape.chance(1, 8, 'ci.missing'):
                        url = 'http://a.test/never-added'
                        r.probes['check_in_missing_url'] += 1
                    else:
                        inprog = [u for u in pool if model.rows.get(u, {}).get('status') == 'in_progress']
                        src = inprog if inprog and not tape.chance(1, 4, 'ci.any') else pool
                        if held and tape.chance(1, 3, 'ci.held'):
                            # a URL this process checked out earlier - whatever happened to its row since (removed, added
                            # again, released): the worker holding it still checks it in
                            src = held
                            r.probes['check_in_held_url'] += 1
                        url = src[tape.draw(len(src), 'ci.url')]
                        if url in removed and url in model.rows:
                            r.probes['check_in_after_remove_and_readd'] += 1
                    st = tape.choice(('done', 'error', 'skipped', 'todo'), 'ci.status')
                    inc = not tape.chance(1, 3, 'ci.noinc')
                    res = rd = None
                    if tape.chance(1, 2, 'ci.result'):
                        res = URLResult()
                        rd = {}
                        if tape.chance(2, 3, 'ci.code'):
                            res.status_code = rd['status_code'] = tape.choice((200, 404, 500, 226), 'ci.code.v')
                        if tape.chance(1, 3, 'ci.file'):
                            res.filename = rd['filename'] = 'out/file%d' % tape.draw(3, 'ci.file.v')
                    if inc:
                        r.probes['check_in_increment'] += 1
                    desc = ('check_in', url, st, inc, rd)
                    table.check_in(url, Status(st), increment_try_count=inc, url_result=res)
                    model.check_in(url, st, inc, rd)
                elif op == 'update':
                    pool = list(model.rows) or ['http://a.test/p0']
                    url = pool[tape.draw(len(pool), 'up.url')]
                    kw = {}
                    if tape.chance(1, 2, 'up.level'):
                        kw['level'] = tape.draw(6, 'up.level.v')
                    if tape.chance(1, 2, 'up.prio') or not kw:
                        kw['priority'] = tape.draw(4, 'up.prio.v')
                    desc = ('update_one', url, kw)
                    r.probes['update_one'] += 1
                    table.update_one(url, **kw)
                    model.update_one(url, **kw)
                elif op == 'release':
                    if any(x['status'] == 'in_progress' for x in model.rows.values()):
                        r.probes['release_with_in_progress'] += 1
                    desc = ('release',)
                    table.release()
                    model.release()
                elif op == 'remove':
                    pool = list(model.rows) + ['http://a.test/never-added']
                    k = tape.between(1, 2, 'rm.n')
                    urls = [pool[tape.draw(len(pool), 'rm.url')] for _ in range(k)]
                    live_held = [u for u in held if u in model.rows]
                    if live_held and tape.chance(1, 3, 'rm.held'):
                        urls[0] = live_held[tape.draw(len(live_held), 'rm.held.i')]      # remove a URL somebody has checked out
                    if any(u in model.rows for u in urls):
                        r.probes['remove_existing'] += 1
                    removed.update(u for u in urls if u in model.rows)
                    desc = ('remove_many', urls)
                    table.remove_many(urls)
                    model.remove_many(urls)
                elif op == 'visits':
                    r.probes['visits'] += 1
                    vs = []
                    for _ in range(tape.between(1, 3, 'v.n')):
                        vs.append(('http://a.test/p%d' % tape.draw(4, 'v.url'), '<urn:uuid:%d>' % tape.draw(50, 'v.id'),
                                   'DIGEST%d' % tape.draw(3, 'v.digest')))
                    desc = ('add_visits', vs)
                    table.add_visits(vs)
                    model.add_visits(vs)
                    q = ('http://a.test/p%d' % tape.draw(4, 'v.q.url'), 'DIGEST%d' % tape.draw(3, 'v.q.digest'))
                    got = table.get_revisit_id(*q)
                    want = model.get_revisit_id(*q)
                    if got != want:
                        r.violate(P, 'visits', 'revisit-id', 'step %d get_revisit_id%r = %r, model %r' % (step, q, got, want))
                elif op == 'query':
                    desc = ('query',)
                    c = table.count()
                    if c != len(model.rows):
                        r.violate(P, 'query', 'count', 'step %d count() = %d, model %d' % (step, c, len(model.rows)))
                    pool = list(model.rows) + ['http://a.test/never-added']
                    u = pool[tape.draw(len(pool), 'q.url')]
                    if table.contains(u) != (u in model.rows):
                        r.violate(P, 'query', 'contains', 'step %d contains(%r) = %r' % (step, u, table.contains(u)))
                    try:
                        rec = table.get_one(u)
                        if u not in model.rows:
                            r.violate(P, 'query', 'get_one-found-missing', 'step %d get_one(%r)' % (step, u))
                    except NotFound:
                        if u in model.rows:
                            r.violate(P, 'query', 'get_one-notfound', 'step %d get_one(%r) NotFound' % (step, u))
                    rt = table.get_root_url_todo_count()
                    want = sum(1 for x in model.rows.values() if x['status'] == 'todo' and x['level'] == 0)
                    if rt != want:
                        r.violate(P, 'query', 'root-todo-count', 'step %d get_root_url_todo_count() = %d, model %d' % (step, rt, want))
                elif op == 'reopen':
                    r.probes['reopen'] += 1
                    r.faults['close+reopen'] += 1
                    desc = ('close+reopen',)
                    table.close()
                    table = open_table()
            except Exception as e:
                if isinstance(e, (KeyboardInterrupt, SystemExit)):
                    raise
                import traceback
                r.violate(P, 'exception', '%s:%s' % (op, type(e).__name__), 'step %d %r raised %s' % (step, desc, ''.join(traceback.format_exception_only(type(e), e)).strip()[:400]))
                history.append(desc)
                break
            history.append(desc)
            r.log('step %d %r' % (step, desc))
            snap = real_snapshot(table)
            want = model.snapshot()
            if snap != want:
                diff = [u for u in set(snap) | set(want) if snap.get(u) != want.get(u)]
                u0 = sorted(diff)[0]
                r.violate(P, 'state-diverged', op + (':after-reopen' if op == 'reopen' else ''),
                          'after step %d %r: table and model differ on %d url(s); %r: table %r model %r (fields %r)'
                          % (step, desc, len(diff), u0, snap.get(u0), want.get(u0), FIELDS))
                break
    finally:
        try:
            if table is not None:
                table.close()
        except Exception:
            pass
        shutil.rmtree(base, ignore_errors=True)
    r.workload = history
    r.events = kinds
    r.nontrivial = len(history) >= 6 and len(set(kinds)) >= 3 and ('reopen' in kinds or r.probes.get('add_duplicate_existing', 0) > 0)
    r.sample = {'wrapper': use_wrapper, 'history': [repr(h)[:200] for h in history][:30]}
    return r
