"""C06 - a failed or interrupted WARC append never damages earlier records (DESIGN section 4).

For each sampled workload (archive A0 with 1..5 records, compressed or not, + one record to append)
the fault POSITIONS are enumerated completely:
  * I/O-error clause: for every file operation i of the append (open-for-write, each raw write,
    truncate, close, unlink) the append is re-executed with an OSError injected at i (for raw writes
    additionally: error after a partial write, and a benign short write).
  * kill clause: for every operation boundary i, and for every raw write additionally at a torn
    prefix, the directory is snapshotted exactly as a kill would leave it.

Real: wpull.warc.recorder.WARCRecorder.write_record / start-up journal check, wpull.warc.format, real gzip,
      real io.BufferedWriter/TextIOWrapper, real files on tmpfs
Stub: failure behaviour of open/write/close/truncate/unlink (simlib.fs)
"""
import errno
import io
import gc
import logging
import os
import random
import shutil
import tempfile
import time
import uuid

from simlib import compat
compat.install()
from simlib.runner import Result
from simlib import fs as simfs
from refs import warc as refwarc

from wpull.warc.recorder import WARCRecorder, WARCRecorderParams
from wpull.warc.format import WARCRecord
import wpull.util

_real_uuid4 = uuid.uuid4
_real_time = time.time
_real_datetime_str = wpull.util.datetime_str

P = 'C06'
BUDGETS = {'C06': (45, 900, 10)}
LEVELS = {'C06': 'fault_enumeration'}
PROBES = {'C06': ['numbered_files', 'failed_rollover_before_the_append', 'restart_with_journal_of_meta_file', 'first_record_of_file', 'compressed', 'uncompressed', 'multi_write_append', 'error_at_journal', 'error_at_archive_open',
                  'error_at_archive_write', 'error_at_archive_close', 'error_at_unlink', 'torn_error', 'short_write',
                  'kill_points', 'kill_torn_points', 'kill_with_journal', 'restart_refused', 'real_kill_crosscheck', 'archive_name_with_glob_characters', 'second_run_close', 'fresh_start_over_existing_archive', 'kill_while_undoing_a_failed_append']}
INFO = {'C06': {
    'rule': 'workload = (compression, 0..5 earlier records, record to append with block of 0..40000 bytes); per workload '
            'EVERY file operation of the append is a fault position for the I/O-error clause and every operation '
            'boundary (+ torn prefixes of each raw write) for the kill clause; non-trivial iff the append performs >= 2 '
            'raw writes to the archive; distinct by workload digest. evaluations counts workloads; '
            'fault positions are in coverage.probes (kill_points, error positions)',
    'interleaving_measure': 'not applicable (single-threaded append); fault positions are enumerated, see probes',
    'components': {'real': ['wpull.warc.recorder.WARCRecorder (write_record, journal check at start-up)', 'wpull.warc.format.WARCRecord',
                            'gzip.GzipFile, io.BufferedWriter, io.TextIOWrapper', 'files on tmpfs'],
                   'stub': ['failure behaviour of open/write/truncate/close/unlink below Python buffering (simlib.fs.SimRawFile)',
                            'process kill = directory snapshot at an operation boundary (cross-checked against real fork+_exit on a sample)']},
    'assumptions': ['a process kill loses only Python-level buffers: bytes passed to raw write() survive (page cache)',
                    'exactly one fault per append (a second error during the rollback itself is outside the clause)',
                    'when the failing operation is the journal unlink itself the journal necessarily remains (waived, archive must then be valid)'],
}}


def make_record(rng, size, rid):
    rec = WARCRecord()
    rec.set_common_fields('resource', 'application/octet-stream')
    rec.fields['WARC-Target-URI'] = 'urn:verif:%d' % rid
    kind = rng.randrange(3)
    if kind == 0:
        data = bytes(rng.randrange(256) for _ in range(min(size, 3000))) * (size // 3000 + 1)
        data = data[:size]
    elif kind == 1:
        data = (b'compressible text line %d\n' % rid) * (size // 20 + 1)
        data = data[:size]
    else:
        data = bytes(rng.getrandbits(8) for _ in range(size))
    rec.block_file = io.BytesIO(data)
    return rec


def valid_sequence(data, compressed):
    recs, errors = refwarc.parse_warc_file(data, compressed)
    return (not errors), recs, errors


_frozen = [False]


def _collect():
    """A full collection, made cheap: everything that existed before the first call is moved to the permanent generation."""
    if not _frozen[0]:
        gc.collect()
        gc.freeze()
        _frozen[0] = True
    gc.collect()


def _second_run_close(tape, r, rng, compress, digests, sandbox, tmpdir, idrng, workload):
    """The appends a recorder makes when a SECOND run (--warc-append, --warc-max-size) is closed: warcinfo and log record go
    to the '-meta' file, which already holds the first run's records. One I/O error at every file operation of close(); what
    the first run (and this run so far) archived must still be there, byte for byte, and no journal may remain."""
    r.sub = 'second-run-close'
    r.probes['second_run_close'] += 1
    log = tape.chance(2, 3, 'src.log')
    prefix = os.path.join(sandbox, 'a')

    def params(appending):
        return WARCRecorderParams(compress=compress, temp_dir=tmpdir, log=log, digests=digests, cdx=False, software_string='verif-sim/1',
                                  max_size=10 ** 9, appending=appending)
    rec1 = WARCRecorder(prefix, params=params(False))
    for i in range(tape.between(1, 3, 'src.n1')):
        x = make_record(random.Random(rng.randrange(1 << 30)), tape.choice((10, 500, 9000), 'src.size'), i)
        rec1.set_length_and_maybe_checksums(x)
        rec1.write_record(x)
    rec1.close()
    run1 = simfs.snapshot_dir(sandbox)
    workload.update({'variant': 'second_run_close', 'log': log, 'files_after_run1': sorted((k, len(v)) for k, v in run1.items())})

    def second(plan=None):
        simfs.restore_dir(sandbox, run1)
        idrng.seed(5150)
        rec2 = WARCRecorder(prefix, params=params(True))          # (its own warcinfo append happens outside the fault seam)
        y = make_record(random.Random(7), 300, 50)
        rec2.set_length_and_maybe_checksums(y)
        rec2.write_record(y)
        before = simfs.snapshot_dir(sandbox)
        f = simfs.SimFS(sandbox)
        f.plan = plan or {}
        err = None
        with f:
            try:
                rec2.close()
            except OSError as e:
                err = e
            _collect()
        root = logging.getLogger()
        for hd in list(root.handlers):
            root.removeHandler(hd)
        return f, err, before
    f0, err0, before0 = second()
    if err0 is not None:
        r.violate(P, 'setup', 'fault-free-close-failed', repr(err0))
        return r
    nops = f0.ops
    oplog = list(f0.log)
    workload['ops'] = [(o[1], o[2]) for o in oplog]
    r.nontrivial = nops >= 4
    for k in range(nops):
        kind, name = oplog[k][1], oplog[k][2]
        if kind == 'unlink':
            continue                        # a journal whose unlink fails cannot but remain
        for fault in (('error', 28), ('torn-error', 7, 5)):
            if fault[0] == 'torn-error' and kind != 'write':
                continue
            f, err, before = second({k: fault})
            r.faults['io_error.%s' % kind] += 1
            r.probes['error_at_' + ('journal' if name.endswith('-wpullinc') else 'archive_' + kind)] += 1
            after = simfs.snapshot_dir(sandbox)
            pos = 'close() op%d/%d %s:%s %s' % (k, nops, kind, name, fault[0])
            for fn, data in before.items():
                if not (fn.endswith('.warc') or fn.endswith('.warc.gz')):
                    continue
                got = after.get(fn)
                if got is None:
                    r.violate(P, 'io-error-archive-damaged', 'second-run-close:file-gone', '%s: %s no longer exists (it held %d bytes of earlier records)' % (pos, fn, len(data)))
                    continue
                if got[:len(data)] != data:
                    r.violate(P, 'io-error-archive-damaged', 'second-run-close:earlier-bytes-changed', '%s: the first %d bytes of %s are not what they were' % (pos, len(data), fn))
                    continue
                okv, recs, errs = valid_sequence(got, compress)
                if not okv:
                    r.violate(P, 'io-error-archive-damaged', 'second-run-close:not-a-record-sequence', '%s: %s (%d -> %d bytes): %r' % (pos, fn, len(data), len(got), errs[:2]))
            left = [fn for fn in after if fn.endswith('-wpullinc')]
            if left and err is not None:
                r.violate(P, 'io-error-journal-left', 'second-run-close', '%s: journal %r remains after the failed close' % (pos, left))
    r.workload = workload
    r.sample = {'workload': workload, 'violations': [v.cls + ':' + v.sig for v in r.violations][:6]}
    return r


def _fresh_start_over_existing(tape, r, rng, compress, digests, sandbox, tmpdir, idrng, workload):
    """A run WITHOUT --warc-append over the archive an earlier run left: the file is started afresh and its first record (the
    warcinfo record) appended. I/O error / kill at every file operation of that start. The archive before this append is the
    emptied file: after an I/O error it must be that (or, if the emptying itself failed, still the old archive), with no
    journal; after a kill it is a valid record sequence or a journal names a length to which truncation gives one."""
    r.sub = 'fresh-start-over-existing'
    r.probes['fresh_start_over_existing_archive'] += 1
    max_size = 10 ** 9 if tape.chance(1, 2, 'fso.max_size') else None
    prefix = os.path.join(sandbox, 'a')
    name = ('a-00000' if max_size else 'a') + ('.warc.gz' if compress else '.warc')

    def params():
        return WARCRecorderParams(compress=compress, temp_dir=tmpdir, log=False, digests=digests, cdx=False, software_string='verif-sim/1',
                                  max_size=max_size, appending=False)
    rec1 = WARCRecorder(prefix, params=params())
    for i in range(tape.between(1, 3, 'fso.n1')):
        x = make_record(random.Random(rng.randrange(1 << 30)), tape.choice((10, 500, 9000), 'fso.size'), i)
        rec1.set_length_and_maybe_checksums(x)
        rec1.write_record(x)
    old = simfs.snapshot_dir(sandbox)
    stale = old[name]
    workload.update({'variant': 'fresh_start_over_existing', 'stale_bytes': len(stale), 'numbered': bool(max_size)})

    def start(plan=None, observer=None):
        simfs.restore_dir(sandbox, old)
        idrng.seed(6060)
        f = simfs.SimFS(sandbox)
        f.plan = plan or {}
        f.observer = observer
        err = None
        with f:
            try:
                WARCRecorder(prefix, params=params())
            except OSError as e:
                err = e
            _collect()
        return f, err
    kills = []

    def observer(k, kind, path, data):
        snap = simfs.snapshot_dir(sandbox)
        kills.append((k, kind, 'before', snap))
        if kind == 'write' and data and len(data) > 1 and os.path.basename(path) == name:
            s2 = dict(snap)
            s2[name] = s2.get(name, b'') + data[:len(data) // 2]
            kills.append((k, kind, 'torn', s2))
    f0, err0 = start(observer=observer)
    if err0 is not None:
        r.violate(P, 'setup', 'fault-free-start-failed', repr(err0))
        return r
    kills.append((f0.ops, 'end', 'after-last-op', simfs.snapshot_dir(sandbox)))
    oplog = list(f0.log)
    nops = f0.ops
    r.nontrivial = nops >= 4
    workload['ops'] = [(o[1], o[2]) for o in oplog]

    def judge_state(snap, pos, killed):
        data = snap.get(name, b'')
        jn = snap.get(name + '-wpullinc')
        okv, recs, errs = valid_sequence(data, compress)
        if killed:
            if okv:
                return
            off = None
            if jn is not None:
                try:
                    lines = jn.decode('ascii').split('\n')
                    if lines[0] == 'wpull-journal-version:1' and lines[1].startswith('offset:'):
                        off = int(lines[1][7:])
                except Exception:
                    off = None
            if off is None:
                r.violate(P, 'kill-unrecoverable', 'fresh-start:no-usable-journal', 'kill at %s: the archive is not a record sequence (%r) and no journal names a length' % (pos, errs[:1]))
            elif not valid_sequence(data[:off], compress)[0] or off > len(data):
                r.violate(P, 'kill-unrecoverable', 'fresh-start:journal-offset', 'kill at %s: the journal names offset %d (the emptied file has length 0, the old archive had %d); '
                          'truncating the %d bytes on disk to it does not give a record sequence' % (pos, off, len(stale), len(data)))
        else:
            if jn is not None:
                r.violate(P, 'io-error-journal-left', 'fresh-start', '%s: a journal remains after the failed start' % pos)
            if data not in (b'', stale):
                r.violate(P, 'io-error-archive-damaged', 'fresh-start:' + ('not-a-record-sequence' if not okv else 'neither-emptied-nor-old'),
                          '%s: the archive holds %d bytes that are neither the emptied file nor the old archive (%d bytes): %r' % (pos, len(data), len(stale), errs[:1]))
    for k, kind, where, snap in kills:
        r.probes['kill_points' if where != 'torn' else 'kill_torn_points'] += 1
        r.faults['kill'] += 1
        judge_state(snap, 'start op%d/%d %s %s' % (k, nops, kind, where), True)
    for k, kind, fname, n in oplog:
        if kind == 'unlink':
            continue
        for fault in (('error', 28), ('torn-error', 7, 5)):
            if fault[0] == 'torn-error' and (kind != 'write' or not isinstance(n, int) or n < 2):
                continue
            f, err = start({k: fault})
            r.faults['io.' + fault[0]] += 1
            if err is None:
                r.violate(P, 'io-error-swallowed', 'fresh-start', 'start op%d %s:%s %s: the recorder started although the operation failed' % (k, kind, fname, fault[0]))
                continue
            judge_state(simfs.snapshot_dir(sandbox), 'start op%d/%d %s:%s %s' % (k, nops, kind, fname, fault[0]), False)
    r.workload = workload
    r.sample = {'workload': workload, 'violations': [v.cls + ':' + v.sig for v in r.violations][:6]}
    return r


def run(tape, prop, tier):
    r = Result()
    rng = tape.subrng('rng')
    compress = tape.chance(1, 2, 'compress')
    nprev = tape.between(0, 5, 'nprev')        # 0: the append under test is the first record of its file
    szk = tape.draw(7, 'size.kind')
    size = (0, 1, 2 + tape.draw(300, 'size.s'), 4000 + tape.draw(5000, 'size.m'), 15000 + tape.draw(30000, 'size.l'),
            66000 + tape.draw(9000, 'size.xl'), 8192)[szk]
    digests = not tape.chance(1, 4, 'nodigests')
    workload = {'compress': compress, 'nprev': nprev, 'size': size, 'digests': digests}
    r.probes['compressed' if compress else 'uncompressed'] += 1
    base = tempfile.mkdtemp(prefix='wv-c06-%d-' % os.getpid(), dir='/dev/shm')
    sandbox = os.path.join(base, 'out')
    tmpdir = os.path.join(base, 'tmp')
    os.mkdir(sandbox)
    os.mkdir(tmpdir)
    idrng = random.Random(99)
    uuid.uuid4 = lambda: uuid.UUID(int=idrng.getrandbits(128), version=4)
    wpull.util.datetime_str = lambda: '2018-01-01T00:00:00Z'
    time.time = lambda: 1514764800.0          # gzip member headers carry time.time()
    try:
        if tape.chance(1, 6, 'variant.second_run_close'):
            return _second_run_close(tape, r, rng, compress, digests, sandbox, tmpdir, idrng, workload)
        if tape.chance(1, 8, 'variant.fresh_start_over_existing'):
            return _fresh_start_over_existing(tape, r, rng, compress, digests, sandbox, tmpdir, idrng, workload)
        # with --warc-max-size the files are numbered (a-00000.warc.gz ...); the limit itself is never reached here
        max_size = 10 ** 9 if tape.chance(1, 3, 'max_size') else None
        workload['max_size'] = bool(max_size)
        if max_size:
            r.probes['numbered_files'] += 1
        params = WARCRecorderParams(compress=compress, temp_dir=tmpdir, log=False, digests=digests, cdx=False,
                                    software_string='verif-sim/1', max_size=max_size)
        # the archive name is the user's choice (--warc-file): characters that mean something to glob() are legal in it
        # (an empty base name - '--warc-file dir/' - gives 'dir/.warc.gz': a name glob's '*' does not match)
        stem = tape.choice(('a', 'a', 'site[2024]', 'crawl*x', 'q?-[ab]', '', '.hidden'), 'warc.stem')
        if stem not in ('a', '', '.hidden'):
            r.probes['archive_name_with_glob_characters'] += 1
        prefix = os.path.join(sandbox, stem)
        recorder = WARCRecorder(prefix, params=params)       # writes the warcinfo record
        for i in range(nprev - 1):
            rec = make_record(rng, rng.choice((0, 10, 500, 9000)), i)
            recorder.set_length_and_maybe_checksums(rec)
            recorder.write_record(rec)
        arch_name = (stem + '-00000' if max_size else stem) + ('.warc.gz' if compress else '.warc')
        arch = os.path.join(sandbox, arch_name)
        if max_size and nprev >= 1 and tape.chance(1, 3, 'failed_rollover'):
            # history: the size limit was reached once, the start of the next numbered file failed with an I/O error at a drawn
            # operation, and recording went on in the current file. Everything below (journal, roll-back, refusal) must be about
            # THIS file; the stub the failed start may have left is part of the state before the append.
            real_params = recorder._params
            recorder._params = real_params._replace(max_size=1)
            f = simfs.SimFS(sandbox)
            f.plan = {tape.draw(4, 'failed_rollover.op'): ('error', errno.EIO)}
            with f:
                try:
                    recorder.flush_session()
                except OSError:
                    r.probes['failed_rollover_before_the_append'] += 1
                _collect()
            recorder._params = real_params
            if os.path.basename(recorder._warc_filename) != arch_name:
                # the drawn operation did not fail the start (or the recorder moved on): the next file is the one under test
                arch_name = os.path.basename(recorder._warc_filename)
                arch = os.path.join(sandbox, arch_name)
                nprev = 1
        if nprev == 0:
            # the state in which the recorder writes the first record of a file (fresh archive, next --warc-max-size
            # file, -meta file): the file exists and is empty
            with open(arch, 'wb'):
                pass
            r.probes['first_record_of_file'] += 1
        journal_name = arch_name + '-wpullinc'
        pre = simfs.snapshot_dir(sandbox)
        A0 = pre[arch_name]
        ok, recs0, errs = valid_sequence(A0, compress)
        if not ok or len(recs0) != nprev:
            r.violate(P, 'setup', 'A0-invalid', '%r' % errs)
            return r
        rec_seed = rng.randrange(1 << 30)

        def attempt(plan=None, observer=None):
            simfs.restore_dir(sandbox, pre)
            idrng.seed(4711)            # same record ID in every attempt: attempts are byte-comparable
            rec = make_record(random.Random(rec_seed), size, 999)
            recorder.set_length_and_maybe_checksums(rec)
            f = simfs.SimFS(sandbox)
            f.plan = plan or {}
            f.observer = observer
            err = None
            with f:
                try:
                    recorder.write_record(rec)
                except OSError as e:
                    err = e
                # objects the failed append abandoned (an unclosed GzipFile in a reference cycle ...) are finalised NOW, still
                # under the fault seam, not at some later collection: whatever they write belongs to this attempt
                _collect()
            return f, err

        # ---- dry run: count operations, take kill snapshots
        kills = []

        def observer(k, kind, path, data):
            snap = simfs.snapshot_dir(sandbox)
            kills.append((k, kind, os.path.basename(path), 'before', snap))
            if kind == 'write' and data and len(data) > 1:
                # torn variants: a prefix of this write reached the file, then the process died
                name = os.path.basename(path)
                cuts = {1, len(data) // 2, len(data) - 1}
                for c in sorted(cuts):
                    if 0 < c < len(data):
                        s2 = dict(snap)
                        s2[name] = s2.get(name, b'') + data[:c]
                        kills.append((k, kind, name, 'torn@%d' % c, s2))
        f0, err0 = attempt(observer=observer)
        kills.append((f0.ops, 'end', '', 'after-last-op', simfs.snapshot_dir(sandbox)))
        if err0 is not None:
            r.violate(P, 'setup', 'fault-free-append-failed', repr(err0))
            return r
        full = simfs.snapshot_dir(sandbox)
        okf, recsf, errsf = valid_sequence(full[arch_name], compress)
        if not okf or len(recsf) != nprev + 1 or journal_name in full:
            r.violate(P, 'fault-free-append', 'archive-invalid-or-journal-left', 'errors %r files %r' % (errsf, sorted(full)))
            return r
        A1 = full[arch_name]
        new_block = recsf[-1].block

        def is_new(data):
            """old archive + exactly one complete record holding the appended block (IDs/dates differ per attempt)"""
            if data[:len(A0)] != A0:
                return False
            okn, recsn, _ = valid_sequence(data, compress)
            return okn and len(recsn) == nprev + 1 and recsn[-1].block == new_block
        oplog = list(f0.log)
        nops = f0.ops
        arch_writes = [o for o in oplog if o[1] == 'write' and o[2] == arch_name]
        workload['ops'] = [(o[1], o[2]) for o in oplog]
        if len(arch_writes) >= 2:
            r.probes['multi_write_append'] += 1
        r.log('append performs %d operations: %s' % (nops, ' '.join('%s:%s' % (o[1], o[2].replace(arch_name, 'ARCH').replace('ARCH-wpullinc', 'JOURNAL')) for o in oplog)))

        meta_variant = tape.chance(1, 3, 'restart.meta_variant')
        # ---- kill clause (enumerated)
        for k, kind, name, where, snap in kills:
            r.probes['kill_points' if where in ('before', 'after-last-op') else 'kill_torn_points'] += 1
            r.faults['kill'] += 1
            data = snap.get(arch_name, b'')
            okv, recsv, errsv = valid_sequence(data, compress)
            jn = snap.get(journal_name)
            pos = 'op%d/%d %s:%s %s' % (k, nops, kind, 'ARCH' if name == arch_name else ('JOURNAL' if name == journal_name else name), where)
            if jn is not None:
                r.probes['kill_with_journal'] += 1
            good = False
            why = ''
            if okv and (data == A0 or is_new(data)):
                good = True
            elif okv:
                why = 'archive parses but is neither the old nor the new record sequence'
            if not good:
                if jn is None:
                    why = why or 'archive is not a valid record sequence (%s) and no journal exists' % (errsv[:1],)
                else:
                    off = None
                    try:
                        lines = jn.decode('ascii').split('\n')
                        if lines[0] == 'wpull-journal-version:1' and lines[1].startswith('offset:'):
                            off = int(lines[1][7:])
                    except Exception:
                        off = None
                    if off is None:
                        why = 'archive damaged and journal unreadable: %r' % jn[:60]
                    elif off != len(A0):
                        why = 'journal names offset %d but the pre-append length is %d' % (off, len(A0))
                    elif data[:off] != A0:
                        why = 'truncating the archive to the journal offset does not give back the old archive'
                    else:
                        good = True
            if not good:
                r.violate(P, 'kill-unrecoverable', _sig_pos(kind, name, arch_name, journal_name, where), 'kill at %s: %s' % (pos, why))
            if jn is not None:
                # a new run must refuse to start while the journal exists
                d2 = tempfile.mkdtemp(prefix='wv-c06r-', dir=base)
                try:
                    # with numbered files the run also writes '<prefix>-meta.warc[.gz]' (at close): one time in three the killed append
                    # is presented as one to that file (same bytes, the names of the -meta file and of its journal)
                    as_meta = bool(max_size) and arch_name.startswith(stem + '-0') and meta_variant
                    for n2, b2 in snap.items():
                        if as_meta and n2 in (arch_name, journal_name):
                            n2 = stem + '-meta' + n2[len(stem) + 6:]
                        with open(os.path.join(d2, n2), 'wb') as fh:
                            fh.write(b2)
                    if as_meta:
                        r.probes['restart_with_journal_of_meta_file'] += 1
                    try:
                        WARCRecorder(os.path.join(d2, stem), params=WARCRecorderParams(
                            compress=compress, temp_dir=tmpdir, log=False, digests=digests, cdx=False, appending=True, max_size=max_size))
                    except OSError:
                        r.probes['restart_refused'] += 1
                    else:
                        r.violate(P, 'restart-not-refused', 'journal-present', 'kill at %s: a new recorder started although %s exists' % (pos, journal_name))
                finally:
                    shutil.rmtree(d2, ignore_errors=True)

        # ---- cross-check of the kill model against a real kill (fork + os._exit) at one position
        if tape.chance(1, 8, 'real_kill'):
            plain = [x for x in kills if x[3] == 'before']
            k, kind, name, where, snap = plain[tape.draw(len(plain), 'real_kill.pos')]
            simfs.restore_dir(sandbox, pre)
            pid = os.fork()
            if pid == 0:
                try:
                    def die(kk, *a):
                        if kk == k:
                            os._exit(137)
                    attempt_nofork = attempt(observer=die)
                finally:
                    os._exit(3)
            _, status = os.waitpid(pid, 0)
            code = os.waitstatus_to_exitcode(status)
            real = simfs.snapshot_dir(sandbox)
            r.probes['real_kill_crosscheck'] += 1
            if code != 137:
                r.violate(P, 'harness-kill-model', 'child-did-not-die-at-position', 'exit code %r at op %d' % (code, k))
            elif real != snap:
                diff = [n for n in set(real) | set(snap) if real.get(n) != snap.get(n)]
                r.violate(P, 'harness-kill-model', 'snapshot-differs-from-real-kill', 'op %d %s: files differing %r (real %r, model %r)'
                          % (k, kind, diff, {n: len(real.get(n, b'')) for n in diff}, {n: len(snap.get(n, b'')) for n in diff}))

        def recoverable(snap):
            """kill clause: a valid old/new archive, or a journal naming the pre-append length under which the old archive lies"""
            data = snap.get(arch_name, b'')
            okv, _, errsv = valid_sequence(data, compress)
            if okv and (data == A0 or is_new(data)):
                return None
            jn = snap.get(journal_name)
            if jn is None:
                return 'archive is %s and no journal exists' % ('neither the old nor the new record sequence' if okv else 'not a record sequence %r' % (errsv[:1],))
            try:
                lines = jn.decode('ascii').split('\n')
                off = int(lines[1][7:]) if lines[0] == 'wpull-journal-version:1' and lines[1].startswith('offset:') else None
            except Exception:
                off = None
            if off != len(A0) or data[:off] != A0:
                return 'journal offset %r does not lead back to the old archive (%d bytes)' % (off, len(A0))
            return None

        # ---- I/O-error clause (enumerated)
        for k, kind, name, n in oplog:
            variants = [('error', errno.ENOSPC if k % 2 else errno.EIO)]
            if kind == 'write' and isinstance(n, int) and n > 1:
                variants.append(('torn-error', n // 2, errno.ENOSPC))
                variants.append(('short', max(1, n // 3)))
            for act in variants:
                # the process may also die while the failed append is being undone: snapshots at every operation after the
                # injected error are judged by the kill clause (the journal must outlive the damage it describes)
                after_fault = []

                def obs_after(kk, kind2, path2, data2, k=k):
                    if kk > k:
                        after_fault.append((kk, kind2, os.path.basename(path2), simfs.snapshot_dir(sandbox)))
                f, err = attempt(plan={k: act}, observer=obs_after if act[0] != 'short' else None)
                for kk, kind2, name2, snap2 in after_fault:
                    why = recoverable(snap2)
                    r.probes['kill_while_undoing_a_failed_append'] += 1
                    if why:
                        r.violate(P, 'kill-unrecoverable', 'after-io-error:%s:%s' % (kind2, 'JOURNAL' if name2 == journal_name else ('ARCH' if name2 == arch_name else 'other')),
                                  'I/O error at op%d (%s:%s %s), then the process dies before op%d (%s:%s): %s' % (k, kind, name, act[0], kk, kind2, name2, why))
                        break
                after = simfs.snapshot_dir(sandbox)
                data = after.get(arch_name, b'')
                where = 'JOURNAL' if name == journal_name else ('ARCH' if name == arch_name else name)
                pos = 'op%d/%d %s:%s %s' % (k, nops, kind, where, act[0])
                r.faults['io.' + act[0]] += 1
                if act[0] == 'short':
                    r.probes['short_write'] += 1
                    # a short write is legal and must be absorbed
                    if err is not None or not is_new(data) or journal_name in after:
                        r.violate(P, 'short-write-mishandled', '%s:%s' % (kind, where), '%s: err=%r archive==new:%s journal:%s'
                                  % (pos, err, is_new(data), journal_name in after))
                    continue
                if act[0] == 'torn-error':
                    r.probes['torn_error'] += 1
                if name == journal_name and kind != 'unlink':
                    r.probes['error_at_journal'] += 1
                elif kind == 'open':
                    r.probes['error_at_archive_open'] += 1
                elif kind == 'write':
                    r.probes['error_at_archive_write'] += 1
                elif kind == 'close':
                    r.probes['error_at_archive_close'] += 1
                elif kind == 'unlink':
                    r.probes['error_at_unlink'] += 1
                if not f.fired:
                    continue        # the operation index was not reached in this re-execution
                if err is None:
                    r.violate(P, 'io-error-swallowed', '%s:%s' % (kind, where), '%s: write_record() returned normally' % pos)
                    continue
                if kind == 'unlink':
                    # waived: the journal necessarily remains; the archive must be a valid sequence
                    okv, _, errsv = valid_sequence(data, compress)
                    if not okv or not (data == A0 or is_new(data)):
                        r.violate(P, 'io-error-archive-damaged', 'unlink', '%s: archive invalid after failed unlink: %r' % (pos, errsv[:1]))
                    continue
                if data != A0:
                    if len(data) == len(A0):
                        how = 'same length, content differs (first diff at %d)' % _first_diff(data, A0)
                    else:
                        how = 'length %d, was %d' % (len(data), len(A0))
                    r.violate(P, 'io-error-archive-damaged', '%s:%s' % (kind, where), '%s: archive is not what it was before the attempt: %s' % (pos, how))
                if journal_name in after:
                    r.violate(P, 'io-error-journal-left', '%s:%s' % (kind, where), '%s: journal file remains after the failed append' % pos)
        r.workload = workload
        r.nontrivial = len(arch_writes) >= 2
        r.sample = {'workload': workload, 'operations': nops, 'kill_snapshots': len(kills)}
        r.events = [(o[1], o[2]) for o in oplog]
    finally:
        uuid.uuid4 = _real_uuid4
        time.time = _real_time
        wpull.util.datetime_str = _real_datetime_str
        shutil.rmtree(base, ignore_errors=True)
    seen = set()
    uniq = []
    for v in r.violations:
        if (v.cls, v.sig) not in seen:
            seen.add((v.cls, v.sig))
            uniq.append(v)
    r.violations = uniq
    return r


def _sig_pos(kind, name, arch_name, journal_name, where):
    w = 'ARCH' if name == arch_name else ('JOURNAL' if name == journal_name else 'end')
    return '%s:%s:%s' % (kind, w, 'torn' if where.startswith('torn') else where)


def _first_diff(a, b):
    for i, (x, y) in enumerate(zip(a, b)):
        if x != y:
            return i
    return min(len(a), len(b))
