"""A simulated FTP origin serving a generated directory tree to the WHOLE application (used by the C03 FTP variant).

Unlike harness/ftp.py (client-level, one flat listing, mutated replies) this server is plain and deterministic: the
interesting nondeterminism of a crash experiment is the kill instant. It understands the verbs wpull's FTP client sends
(USER PASS TYPE PASV SIZE REST RETR MLSD LIST) with absolute paths as arguments.

tree: dict  '/dir/' -> [(name, 'dir'|'file')]   and   '/dir/name' -> bytes for files
"""
import posixpath


def gen_tree(tape):
    """A small tree: 1..3 levels, 3..10 entries; names are plain (odd names are C09's and C17's subject)."""
    tree = {'/': []}
    dirs = ['/']
    nfiles = 0
    for i in range(tape.between(1, 4, 'ftp.ndirs')):
        parent = dirs[tape.draw(len(dirs), 'ftp.dir.parent')]
        if parent.count('/') > 3:
            parent = '/'
        name = 'd%d' % i
        path = parent + name + '/'
        tree[parent].append((name, 'dir'))
        tree[path] = []
        dirs.append(path)
    for i in range(tape.between(2, 6, 'ftp.nfiles')):
        parent = dirs[tape.draw(len(dirs), 'ftp.file.parent')]
        name = 'f%d.%s' % (i, tape.choice(('txt', 'bin', 'dat'), 'ftp.file.ext'))
        tree[parent].append((name, 'file'))
        tree[parent + name] = (b'content of ' + (parent + name).encode()) * (1 + tape.draw(3, 'ftp.file.size'))
        nfiles += 1
    return tree


def all_urls(tree, host):
    return ['ftp://%s%s' % (host, p) for p in tree]


class FtpTreeServer:
    def __init__(self, h, net, tree, host='ftp.test', ip='10.9.0.1', mlsd=True, faults=None):
        self.faults = faults or {}      # n-th command received (all sessions) -> 'rst' | 'fin' | ('reply', bytes) | 'data_rst' | 'stall'
        self.ncmd = 0
        self.h = h
        self.net = net
        self.tree = tree
        self.host = host
        self.ip = ip
        self.mlsd = mlsd
        self.next_port = 42000
        self.log = []
        net.add_host(host, ip)
        net.listen(ip, 21, lambda conn: _Ctl(self, conn))

    def listing(self, path, verb):
        rows = []
        for name, kind in self.tree[path]:
            if verb == 'MLSD':
                if kind == 'symlink':
                    rows.append('type=symlink;modify=20180101000000; %s' % name)     # (no link target in such a row)
                    continue
                if kind == 'dir':
                    rows.append('type=dir;modify=20180101000000; %s' % name)
                else:
                    rows.append('type=file;size=%d;modify=20180101000000; %s' % (len(self.tree[path + name]), name))
            else:
                if kind == 'dir':
                    rows.append('drwxr-xr-x   2 ftp  ftp      4096 Jan 01  2018 %s' % name)
                elif kind == 'symlink':
                    rows.append('lrwxrwxrwx   1 ftp  ftp         6 Jan 01  2018 %s -> target.txt' % name)
                else:
                    rows.append('-rw-r--r--   1 ftp  ftp  %8d Jan 01  2018 %s' % (len(self.tree[path + name]), name))
        return ('\r\n'.join(rows) + ('\r\n' if rows else '')).encode()


class _Dat:
    def __init__(self, ctl, conn):
        ctl.data_conn = conn
        if ctl.pending is not None:
            ctl.transfer()

    def on_data(self, conn, data):
        pass

    def on_eof(self, conn):
        conn.finish()


class _Ctl:
    def __init__(self, srv, conn):
        self.srv = srv
        self.conn = conn
        self.buf = b''
        self.data_conn = None
        self.pending = None
        self.say(220, 'ready')

    def say(self, code, text):
        self.conn.send(('%d %s\r\n' % (code, text)).encode())

    def on_data(self, conn, data):
        self.buf += data
        while b'\r\n' in self.buf:
            line, self.buf = self.buf.split(b'\r\n', 1)
            self.handle(line.decode('latin-1'), self.srv.net.current_ctx)

    def on_eof(self, conn):
        conn.finish()

    def handle(self, line, ctx):
        srv = self.srv
        verb, _, arg = line.partition(' ')
        v = verb.upper()
        fault = srv.faults.get(srv.ncmd)
        srv.ncmd += 1
        self.data_fault = None
        if fault is not None:
            srv.h.r.faults['ftp_crawl_fault.%s' % (fault if isinstance(fault, str) else fault[0])] += 1
            if fault == 'rst':
                self.conn.reset()
                return
            if fault == 'fin':
                self.conn.finish()
                return
            if fault == 'stall':
                return
            if isinstance(fault, tuple):
                self.conn.send(fault[1])
                return
            self.data_fault = fault
        if v == 'USER':
            self.say(331, 'password please')
        elif v == 'PASS':
            self.say(230, 'logged in')
        elif v == 'TYPE':
            self.say(200, 'type set')
        elif v == 'PASV':
            port = srv.next_port
            if not srv.faults.get('pasv_reuse'):
                srv.next_port += 1
            self.data_conn = None
            srv.net.listen(srv.ip, port, lambda c: _Dat(self, c))
            a = srv.ip.split('.')
            self.say(227, 'Entering Passive Mode (%s,%s,%s,%s,%d,%d).' % (a[0], a[1], a[2], a[3], port >> 8, port & 255))
        elif v == 'SIZE':
            if srv.faults.get('size_reply'):
                self.conn.send(srv.faults['size_reply'])       # an answer to SIZE that names no usable number
                return
            f = srv.tree.get(arg)
            if isinstance(f, bytes):
                self.say(213, str(len(f)))
            else:
                self.say(550, 'not a plain file')
        elif v == 'REST':
            self.say(350, 'restarting')
        elif v in ('RETR', 'MLSD', 'LIST'):
            path = arg or '/'
            if v == 'MLSD' and not srv.mlsd:
                self.say(500, 'not understood')
                return
            if v == 'RETR':
                content = srv.tree.get(path)
                if not isinstance(content, bytes):
                    self.say(550, 'no such file')
                    return
            else:
                if not path.endswith('/'):
                    path += '/'
                if not isinstance(srv.tree.get(path), list):
                    self.say(550, 'no such directory')
                    return
                content = srv.listing(path, v)
            rec = None
            if ctx is not None:
                ur = ctx.url_record
                rec = {'url': ur.url, 'level': ur.level, 'inline_level': ur.inline_level, 'parent_url': ur.parent_url,
                       'root_url': ur.root_url, 'try_count': ur.try_count}
            url = 'ftp://%s%s' % (srv.host, posixpath.normpath(path) + ('/' if path.endswith('/') and path != '/' else '') if path != '/' else '/')
            entry = {'t': srv.h.loop.time(), 'url': url, 'verb': v, 'rec': rec, 'target': path, 'origin': ('ftp', srv.host, 21), 'method': v}
            srv.log.append(entry)
            srv.h.r.events.append(('req', url))
            if srv.h.on_request is not None:
                srv.h.on_request(entry)
            self.pending = content
            if self.data_conn is not None:
                self.transfer()
        else:
            self.say(500, 'unknown command')

    def transfer(self):
        content = self.pending
        self.pending = None
        dc = self.data_conn
        self.say(150, 'opening data connection')
        if getattr(self, 'data_fault', None) == 'data_rst':
            if content:
                dc.send(content[:len(content) // 2])
            dc.reset()
            self.say(426, 'transfer aborted')
            return
        if content:
            dc.send(content)
        dc.finish()
        self.say(226, 'transfer complete')
