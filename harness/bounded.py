"""C18 - work per URL is bounded: redirect chains and retries always end (DESIGN section 4, C18).

Two levels, chosen per run by the tape:
  visit level : harness.web (WebSession against adversarial servers, all --max-redirect values)
  crawl level : the whole application (harness.crawl) against a site whose URLs keep failing (5xx, resets, refused
                connections, stalls past the timeout, redirect loops); --tries, --max-redirect, --retry-connrefused and
                --waitretry are drawn; the virtual clock makes waits and 900 s timeouts free.
"""
import os
import shutil
import tempfile

from simlib.runner import Result
from refs import site as refsite
from refs.site import canon
from harness import web, crawl

P = 'C18'
BUDGETS = {'C18': (60, 1200, 40)}
LEVELS = {'C18': 'exploration'}
WALL_LIMIT = {('C18', 'quick'): 180, ('C18', 'thorough'): 180}
SHRINK = {'C18': (45, 60)}
PROBES = {'C18': web.PROBES['C18'] + ['crawl_level', 'crawl.robots_perpetual_5xx', 'crawl.robots_reset', 'crawl.robots_ok', 'crawl.robots_redirect_loop', 'crawl.robots_redirect_chain', 'crawl.perpetual_5xx', 'crawl.reset', 'crawl.refused', 'crawl.stall', 'crawl.redirect_loop', 'crawl.partial_body', 'crawl.partial_body_small',
                                     'crawl.tries_exhausted', 'crawl.several_starts', 'crawl.waitretry', 'crawl.retry_connrefused', 'crawl.concurrency>1', 'crawl.with_scope_options', 'crawl.sitemaps_perpetual_5xx', 'crawl.sitemaps_reset', 'crawl.sitemaps_404']}
INFO = {'C18': dict(web.INFO['C18'], rule=web.INFO['C18']['rule'] + ' ; crawl level: site with 1..3 perpetually failing URLs (kind drawn) x --tries '
                    '{1,2,3,5,7,10} x 1..4 start URLs x --max-redirect x --retry-connrefused x --waitretry x concurrency; visits are identified by the item try count '
                    'seen at the server')}
INFO['C18']['components'] = {'real': web.INFO['C18']['components']['real'] + ['whole application (crawl level): processors, ResultRule, TriesFilter, URL table, waiter'],
                             'stub': web.INFO['C18']['components']['stub']}


def run(tape, prop, tier):
    if not tape.chance(1, 3, 'crawl_level'):
        return web.run(tape, prop, tier)
    r = Result()
    r.sub = 'crawl-level'
    r.probes['crawl_level'] += 1
    sandbox = tempfile.mkdtemp(prefix='wv-c18-%d-' % os.getpid(), dir='/dev/shm')
    cwd = os.getcwd()
    try:
        os.chdir(sandbox)
        site, starts, pages, assets, redirects = refsite.gen_site(tape, nhosts=1, npages=tape.between(3, 6, 'site.npages'), with_redirects=False)
        main = site.origins[0]
        tries = tape.choice((1, 2, 3, 5, 7, 10), 'tries')
        max_redirect = tape.choice((20, 5, 2, 0, 33), 'max_redirect')
        waitretry = tape.choice((0, 1, 10), 'waitretry')
        retry_refused = tape.chance(1, 2, 'retry_connrefused')
        bad = []
        nb = tape.between(1, 3, 'nbad')
        for i in range(nb):
            kind = tape.choice(('perpetual_5xx', 'reset', 'stall', 'redirect_loop', 'refused', 'partial_body', 'partial_body_small'), 'bad.kind')
            if kind == 'refused':
                o = site.add_origin('http', 'site.test', 8090 + i, ip=main.ip)
                res = site.add(o, '/down%d.html' % i, 'page')
            else:
                res = site.add(main, '/bad/b%d.html' % i, 'page')
            res.bad_kind = kind
            bad.append(res)
            src = starts[0] if tape.chance(2, 3, 'bad.from_start') else pages[tape.draw(len(pages), 'bad.from')]
            src.links.append((res, res.url))
            r.probes['crawl.' + kind] += 1
            r.faults['crawl.' + kind] += 1
        # several start URLs: more than --max-host-count (6) failing visits on one host must not exhaust anything
        if tape.chance(1, 3, 'starts.more'):
            extra_starts = [p for p in pages if p not in starts and p.origin.key() == main.key()][:tape.between(1, 3, 'starts.n')]
            starts = list(starts) + extra_starts
            r.probes['crawl.several_starts'] += 1
        site.finalize()
        # robots.txt itself may be the thing that keeps failing
        robots_mode = tape.choice((None, None, 'perpetual_5xx', 'reset', 'ok', 'redirect_loop', 'redirect_chain'), 'robots.mode')
        if robots_mode:
            r.probes['crawl.robots_' + robots_mode] += 1
            if robots_mode != 'ok':
                r.faults['crawl.robots_' + robots_mode] += 1
        opts = {'robots': bool(robots_mode), 'recursive': True, 'level': 'inf', 'tries': tries, 'max_redirect': max_redirect}
        # scope options that keep every URL of this one-host site in scope: the limits must hold whichever other rules are installed
        for key, val in (('hostnames', ['site.test']), ('exclude_hostnames', ['other.test']), ('domains', ['site.test']),
                         ('exclude_domains', ['other.test']), ('reject_regex', 'ZZZ-no-such-url'), ('exclude_directories', ['/zzz'])):
            if tape.chance(1, 5, 'scope.' + key):
                opts[key] = val
                r.probes['crawl.with_scope_options'] += 1
        extra = ['--timeout', '30', '--waitretry', str(waitretry)]
        sitemaps_mode = tape.choice((None, None, None, 'perpetual_5xx', 'reset', '404'), 'sitemaps.mode')
        if sitemaps_mode:
            # --sitemaps queues /robots.txt and /sitemap.xml of every start URL's origin as URLs of their own: they are bound by
            # --tries like any other URL when they keep failing
            extra.append('--sitemaps')
            r.probes['crawl.sitemaps_' + sitemaps_mode] += 1
        if retry_refused:
            extra.append('--retry-connrefused')
            r.probes['crawl.retry_connrefused'] += 1
        if waitretry:
            r.probes['crawl.waitretry'] += 1
        dbpath = os.path.join(sandbox, 'db.sqlite')
        argv = crawl.argv_for(opts, [s.url for s in starts], dbpath, extra=extra)
        # argv_for puts '--waitretry 0' first; the later one wins in argparse
        concurrency = tape.choice((1, 2, 3), 'concurrency')
        if concurrency > 1:
            r.probes['crawl.concurrency>1'] += 1
        loop_state = {}

        def setup(h, server, net):
            for res in bad:
                kind = res.bad_kind
                if kind == 'refused':
                    from simlib.net import Refuse
                    net.listeners[(res.origin.ip, res.origin.port)] = Refuse
                    continue

                def beh(conn, entry, rs, kind=kind, res=res):
                    if kind == 'perpetual_5xx':
                        server.send(conn, 503, 'Busy', [('Content-Type', 'text/plain')], b'busy')
                    elif kind == 'reset':
                        conn.reset()
                    elif kind == 'stall':
                        pass
                    elif kind in ('partial_body', 'partial_body_small'):
                        # a good header, then the connection drops inside the body - every time
                        total, part = (50000, 20000) if kind == 'partial_body' else (300, 100)
                        conn.send(b'HTTP/1.1 200 OK\r\nContent-Type: text/html\r\nContent-Length: %d\r\n\r\n' % total + b'x' * part)
                        conn.reset()
                    elif kind == 'redirect_loop':
                        n = loop_state.get(res.url, 0)
                        loop_state[res.url] = n + 1
                        server.send(conn, 302, 'Found', [('Location', res.path + '?hop=%d' % n), ('Content-Type', 'text/plain')], b'again')
                server.behaviour[(res.origin.key(), res.target)] = beh
            if sitemaps_mode:
                def sm(conn, entry, rs):
                    if sitemaps_mode == 'perpetual_5xx':
                        server.send(conn, 503, 'Busy', [('Content-Type', 'text/plain')], b'busy')
                    elif sitemaps_mode == 'reset':
                        conn.reset()
                    else:
                        server.send(conn, 404, 'Not Found', [('Content-Type', 'text/plain')], b'none')
                for o in site.origins:
                    server.behaviour[(o.key(), '/sitemap.xml')] = sm
                    if not robots_mode:
                        server.behaviour[(o.key(), '/robots.txt')] = sm
            if robots_mode:
                def rb(conn, entry, rs):
                    entry['robots'] = True
                    if robots_mode == 'perpetual_5xx':
                        server.send(conn, 503, 'Busy', [('Content-Type', 'text/plain')], b'busy')
                    elif robots_mode == 'reset':
                        conn.reset()
                    elif robots_mode in ('redirect_loop', 'redirect_chain'):
                        # robots.txt itself keeps redirecting: the redirect limit holds for this fetch as for any other
                        n = loop_state.get('robots', 0)
                        loop_state['robots'] = n + 1
                        loc = '/robots.txt' if robots_mode == 'redirect_loop' and n % 2 else '/robots.txt?hop=%d' % n
                        server.send(conn, tape.choice((301, 302, 307), 'robots.redirect.code'), 'Moved', [('Location', loc), ('Content-Type', 'text/plain')], b'moved')
                    else:
                        server.send(conn, 200, 'OK', [('Content-Type', 'text/plain')], b'User-agent: *\nDisallow:\n')
                for o in site.origins:
                    server.behaviour[(o.key(), '/robots.txt')] = rb
            # every query variant of a redirect loop resource loops too
            orig_lookup = site.lookup

            def lookup(origin_key, target):
                rs = orig_lookup(origin_key, target)
                if rs is None and '?hop=' in target:
                    base = orig_lookup(origin_key, target.split('?', 1)[0])
                    if base is not None and getattr(base, 'bad_kind', None) == 'redirect_loop':
                        return base
                return rs
            site.lookup = lookup

            def generic(conn, entry, rs):
                pass
            # route ?hop= variants to the same behaviour
            orig_serve = server.serve

            def serve(conn, origin, raw, ctx, *rest):
                line = raw.split(b'\r\n', 1)[0].decode('latin-1')
                target = line.split(' ')[1] if ' ' in line else ''
                if '?hop=' in target:
                    base = target.split('?', 1)[0]
                    beh = server.behaviour.get((origin.key(), base))
                    if base == '/robots.txt' and beh is not None:
                        server.behaviour[(origin.key(), target)] = beh
                    if beh is not None:
                        server.behaviour[(origin.key(), target)] = beh
                return orig_serve(conn, origin, raw, ctx, *rest)
            server.serve = serve
        # the legitimate amount of work grows with both limits: tries x (redirects + 1) requests per failing URL (and per start URL for
        # robots.txt); the callback budget that stands for "does not terminate" must lie well above it
        legit = tries * (max_redirect + 1) * (nb + len(starts) + 1)
        out = crawl.run_app(tape, r, site, argv, concurrency, sandbox, setup=setup, budget_vtime=5_000_000.0, max_callbacks=40_000 + 600 * legit)
        rows = crawl.read_rows(dbpath)
        server = out['server']
        if out.get('hang'):
            r.violate(P, 'no-termination', 'crawl-level', 'the crawl of a finite site does not terminate (tries %d, max-redirect %d): %s' % (tries, max_redirect, out['hang'][:700]))
        elif out.get('exception'):
            r.violate(P, 'no-termination', 'crawl-level-exception', out['exception'][-700:])
        # per item: visits = distinct try counts seen; requests per visit
        per_item = {}
        for e in server.log:
            rec = e['rec']
            if rec is None:
                continue
            per_item.setdefault(canon(rec['url']), {}).setdefault(rec['try_count'], []).append(e)
        # visits counted independently of the recorded try count: one visit = one run of the item through the pipeline
        sessions = {}
        for e in server.log:
            rec = e['rec']
            if rec is not None and rec.get('item_run') is not None and e['target'] != '/robots.txt':
                sessions.setdefault(canon(rec['url']), set()).add(rec['item_run'])
        for u, ss in sessions.items():
            if len(ss) > tries:
                r.violate(P, 'tries-exceeded', 'item-runs>tries', '%s was visited in %d separate runs of its item with --tries %d (recorded try counts %r)'
                          % (u, len(ss), tries, sorted(per_item.get(u, {}))))
        for u, visits in per_item.items():
            if len(visits) > tries:
                r.violate(P, 'tries-exceeded', 'visits>tries', '%s was visited %d times with --tries %d (try counts seen %r)' % (u, len(visits), tries, sorted(visits)))
            if max(visits) >= tries:
                r.violate(P, 'tries-exceeded', 'visit-with-try-count>=tries', '%s was requested with try count %d although --tries is %d' % (u, max(visits), tries))
            for tc, es in visits.items():
                page = [e for e in es if not e.get('robots')]
                if len(page) > 1 + max_redirect + 1:
                    r.violate(P, 'redirect-limit-exceeded', 'crawl-level', 'one visit of %s issued %d requests with --max-redirect %d' % (u, len(page), max_redirect))
        # a robots.txt fetch is a visit of its own kind: bounded by the same redirect limit
        chains = {}
        for e in server.log:
            rec = e['rec']
            if rec is not None and e.get('robots'):
                chains.setdefault((rec.get('item_run'), e['origin']), []).append(e)
        for (run_id, o), es in chains.items():
            if len(es) > 1 + max_redirect:
                r.violate(P, 'redirect-limit-exceeded', 'robots-fetch', 'one robots.txt fetch for %r issued %d requests with --max-redirect %d' % (o, len(es), max_redirect))
        for x in rows:
            if x['status'] not in ('done', 'skipped', 'error'):
                r.violate(P, 'row-stuck', x['status'], 'row %s ended %s' % (x['url'], x['status']))
            if any(canon(x['url']) == b.url for b in bad) and x['try_count'] >= tries:
                r.probes['crawl.tries_exhausted'] += 1
        r.sim_time = r.sim_time
        r.workload = ('crawl-level', tries, max_redirect, waitretry, retry_refused, concurrency, [(b.url, b.bad_kind) for b in bad],
                      [(x.kind, x.url, [sp for _, sp in x.links]) for x in site.order])
        r.nontrivial = True
        r.sample = {'level': 'crawl', 'tries': tries, 'max_redirect': max_redirect, 'waitretry': waitretry, 'retry_connrefused': retry_refused,
                    'bad': [(b.url, b.bad_kind) for b in bad], 'exit': out['exit'],
                    'visits': {u: {str(k): len(v) for k, v in vs.items()} for u, vs in per_item.items() if any(u == b.url for b in bad)},
                    'rows': [(x['url'], x['status'], x['try_count']) for x in rows][:16]}
        r.log('exit=%r hang=%r requests=%d' % (out['exit'], out.get('hang'), len(server.log)))
    finally:
        os.chdir(cwd)
        shutil.rmtree(sandbox, ignore_errors=True)
    seen = set()
    uniq = []
    for v in r.violations:
        if (v.prop, v.cls, v.sig) not in seen:
            seen.add((v.prop, v.cls, v.sig))
            uniq.append(v)
    r.violations = uniq
    return r
