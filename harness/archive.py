"""C04 / C05 / C07 - WARC blocks equal wire bytes; WARC files valid with right lengths/digests;
CDX lines address their records (DESIGN section 4). One simulation, three oracles.

Real: wpull.warc.recorder (WARCRecorder, HTTP/FTP recorder sessions), wpull.warc.format, wpull.namevalue,
      wpull.protocol.http.{client,stream,chunked,request}, wpull.network.{pool,connection}, SQLiteURLTable (dedup),
      real files on tmpfs, real gzip
Stub: TCP transport, DNS, clock, origin server (scripted, byte-exact log)
"""
import asyncio
import calendar
import functools
import io
import logging
import os
import re
import shutil
import tempfile
import time

from simlib.env import SimEnv, SimDeadlock, SimBudgetExceeded, task_stacks
from simlib.runner import Result
from simlib import simset
from refs import rfc7230, httpgen
from refs import warc as refwarc

import wpull.network.pool as wpool
import wpull.protocol.abstract.client as wabs
import wpull.protocol.abstract.stream as wastream
from wpull.network.pool import ConnectionPool
from wpull.network.connection import Connection
from wpull.network.dns import Resolver
from wpull.errors import NetworkError, ProtocolError
from wpull.protocol.http.client import Client as HTTPClient
from wpull.protocol.http.request import Request
from wpull.body import Body
from wpull.warc.recorder import WARCRecorder, WARCRecorderParams
from wpull.protocol.ftp.client import Client as FTPClient
from wpull.protocol.ftp.request import Request as FTPRequest
from wpull.errors import ServerError
from simlib.tape import Tape
import wpull.warc.format
from wpull.database.sqltable import SQLiteURLTable

simset.inject(wpool, wabs, wastream)

BUDGETS = {'C04': (45, 900, 40), 'C05': (45, 900, 40), 'C07': (45, 900, 40)}
LEVELS = {'C04': 'exploration', 'C05': 'exploration', 'C07': 'exploration'}
PROBES = {
    'C04': ['framing.length', 'framing.chunked', 'framing.close', 'framing.none', 'surplus', 'truncated', 'post_body',
            'keepalive_reuse', 'concurrent_fetchers', 'lf_only', 'trailers', 'overrun_branch'],
    'C05': ['ftp_sessions', 'ftp_records', 'compressed', 'uncompressed', 'digests_on', 'digests_off', 'rollover', 'appending', 'fresh_run_over_existing_files', 'log_record', 'extra_fields',
            'revisit', 'noncanonical_header', 'empty_body', 'big_body'],
    'C07': ['compressed', 'uncompressed', 'rollover', 'appending', 'fresh_run_over_existing_files', 'multiline_header', 'plus_mime', 'no_content_type',
            'huge_header', 'cdx_lines'],
}
_COMMON = {
    'components': {'real': ['wpull.warc.recorder.WARCRecorder + HTTPWARCRecorderSession (wired exactly as WARCRecorderSetupTask does)',
                            'wpull.warc.format.WARCRecord/read_cdx', 'wpull.namevalue', 'wpull.protocol.http client/stream/chunked',
                            'wpull.network pool/connection', 'wpull.database.sqltable.SQLiteURLTable (dedup visits)',
                            'real files on tmpfs, real gzip module'],
                   'stub': ['TCP transport/segmentation/latency', 'DNS', 'clock', 'origin server (scripted; logs every byte received and sent)']},
    'assumptions': ['refs/warc.py strict reader and refs/rfc7230.py are correct', 'WARC-Date is wall clock and not judged'],
}
INFO = {
    'C04': dict(_COMMON, rule='workload = 1..2 recorder phases x 1..6 exchanges (response grammar of C08 incl. surplus/truncation, '
                'GET/HEAD/POST) fetched by 1..3 concurrent tasks over keep-alive connections x segmentation; non-trivial iff '
                '>= 2 exchanges and at least one non-canonical header formatting or chunked/close framing; distinct by script+config digest'),
    'C05': dict(_COMMON, rule='same runs as C04 with recorder configuration drawn (compression, digests, max_size rollover, appending '
                'phase, log record, extra warcinfo fields, dedup/revisit via CDX of phase 1); non-trivial iff >= 2 records beyond '
                'warcinfo and at least one of rollover/appending/compression/revisit active'),
    'C07': dict(_COMMON, rule='same runs as C04/C05 with cdx=True; non-trivial iff >= 2 response records and one of '
                'rollover/appending/compression active'),
}

CONTENT_TYPES = ('text/html; charset=utf-8', 'text/html', 'image/svg+xml', 'application/vnd.ms-excel', 'application/octet-stream',
                 'text/plain;charset=ISO-8859-1', 'application/xhtml+xml; q=1', 'TEXT/HTML',
                 'text/html\r\n\tcharset=utf-8', 'text/css, text/css', 'text/html ; charset=utf-8', 'text/html\r\n ;charset=x',
                 # every token character is legal in a type or subtype (RFC 7230 3.2.6: "!#$%&'*+-.^_`|~" DIGIT ALPHA)
                 'text/x*y', "application/x-it's", 'application/a|b~c%d`e; v=1')
_seq = [0]


class Origin:
    def __init__(self, h):
        self.h = h

    def __call__(self, conn):
        return _Handler(self.h, conn)


class _Handler:
    def __init__(self, h, conn):
        self.h = h
        self.buf = b''

    def on_data(self, conn, data):
        h = self.h
        self.buf += data
        while True:
            i = self.buf.find(b'\r\n\r\n')
            if i < 0:
                return
            head = self.buf[:i + 4]
            m = re.search(rb'(?i)\r\ncontent-length:\s*(\d+)', head)
            need = int(m.group(1)) if m else 0
            if len(self.buf) < i + 4 + need:
                return
            req = self.buf[:i + 4 + need]
            self.buf = self.buf[i + 4 + need:]
            path = head.split(b' ', 2)[1].decode('latin-1')
            ex = h.by_path.get(path)
            if ex is None:
                conn.send(b'HTTP/1.1 500 No Script\r\nContent-Length: 0\r\n\r\n')
                continue
            ex['req_bytes'].append(req)
            ex['conn'] = conn.id
            resp = ex['resp']
            wire = resp.wire
            if resp.truncate_at is not None:
                sent = wire[:resp.truncate_at]
                conn.send(sent, cuts=resp.hints)
                if resp.truncate_kind == 'rst':
                    conn.reset()
                else:
                    conn.finish()
                ex['sent'] = (sent, resp.truncate_kind)
            else:
                if resp.surplus and not resp.desc.get('stray_crlf'):
                    # surplus must reach the client in the same read as body bytes (the case wpull handles by
                    # cutting at Content-Length); a separately delivered surplus is C08's known finding K1
                    conn.send(wire, mode=0)
                else:
                    conn.send(wire, cuts=resp.hints + [len(resp.message)])
                if resp.close_after:
                    conn.finish()
                    ex['sent'] = (wire, 'fin')
                else:
                    ex['sent'] = (wire, None)
            h.served.append(path)

    def on_eof(self, conn):
        conn.finish()


class H:
    pass


def draw_params(tape, phase, prev):
    p = {}
    if prev is None:
        p['compress'] = tape.chance(1, 2, 'compress')
        p['max_size'] = tape.choice((None, None, 300, 1500, 6000), 'max_size')
    else:
        p['compress'] = prev['compress']          # appending to the same files
        p['max_size'] = prev['max_size']
    p['digests'] = not tape.chance(1, 4, 'nodigests')
    p['cdx'] = True
    p['log'] = tape.chance(1, 3, 'log')
    p['appending'] = prev is not None and tape.chance(2, 3, 'appending')
    p['move_to'] = bool(p['max_size']) and tape.chance(1, 5, 'move_to')      # --warc-move: finished files go to another directory
    ef = None
    k = tape.draw(4, 'extra_fields')
    if k == 1:
        ef = [('operator', 'verif'), ('description', 'a' * 2500)]
    elif k == 2:
        ef = [('wpull-arguments', "Namespace(a='b', c=['d'])"), ('X-Odd', 'café ☃ : colon ; semi')]
    elif k == 3:
        ef = [('multi', 'line one line two ' * 80), ('empty', '')]
    p['extra_fields'] = ef
    return p


def gen_exchanges(tape, phase, n, faults_on, same_pool):
    exs = []
    for i in range(n):
        m = tape.weighted([(6, 'GET'), (1, 'HEAD'), (1, 'POST')], 'method')
        resp = httpgen.gen_response(tape, method='HEAD' if m == 'HEAD' else 'GET', allow_truncate=faults_on,
                                    allow_surplus=faults_on, surplus_same_read_only=True, allow_stray_crlf=True, content_types=CONTENT_TYPES if not tape.chance(1, 6, 'noct') else None)
        if tape.chance(1, 12, 'huge_header'):
            # header block larger than 4 KiB; or right at the largest size the HTTP stream reader accepts (32768 bytes of
            # status line + field lines, the blank line not counted)
            pad = 4200
            if resp.head.endswith(b'\r\n\r\n') and tape.chance(1, 2, 'huge_header.boundary'):
                lines_len = len(resp.head) - 2
                pad = 32768 - tape.draw(4, 'huge_header.k') - lines_len - len(b'X-Huge: \r\n')
                resp.desc['header_at_limit'] = True
            head = resp.head[:-2] + b'X-Huge: ' + b'h' * max(pad, 10) + b'\r\n\r\n'
            if resp.head.endswith(b'\r\n\r\n'):
                delta = len(head) - len(resp.head)
                resp.head = head
                resp.hints = [x + delta for x in resp.hints]
                if resp.truncate_at is not None:
                    resp.truncate_at += delta
                resp.desc['huge_header'] = True
        if same_pool is not None and resp.status == 200 and resp.truncate_at is None and tape.chance(1, 2, 'same_url'):
            path = '/same/%d' % tape.draw(2, 'same.idx')
            fixed = same_pool.get(path)
            if fixed is None and m == 'HEAD':
                path = '/p%d/e%d' % (phase, i)
            elif fixed is None:
                same_pool[path] = resp
            else:
                resp = fixed
                m = 'GET'       # the stored response was generated for a GET
        else:
            path = '/p%d/e%d' % (phase, i)
            if tape.chance(1, 10, 'long_uri'):
                path += '?q=' + 'x' * tape.choice((1100, 1500, 3000), 'long_uri.len')       # WARC-Target-URI longer than 1 KiB
        body = None
        if m == 'POST':
            rng = tape.subrng('post.rng')
            body = bytes(rng.randrange(256) for _ in range(tape.choice((0, 1, 10, 5000), 'post.len')))
        exs.append({'path': path, 'method': m, 'resp': resp, 'post': body, 'req_bytes': [], 'sent': None, 'conn': None,
                    'outcome': None, 'phase': phase})
    return exs


def run_phase(tape, r, sandbox, phase, params, exs, url_table, timeout=60.0, io_fault=None, kill_at_end=False):
    h = H()
    h.by_path = {}
    for ex in exs:
        h.by_path.setdefault(ex['path'], ex)
    h.served = []
    simset.set_tape(tape)
    env = SimEnv(tape, max_callbacks=600_000, max_vtime=100_000.0, id_seed=1000 + phase)
    info = {'rollover': False}
    try:
        with env:
            loop, net = env.loop, env.net
            net.add_host('origin.test', '10.0.0.1')
            net.listen('10.0.0.1', 80, Origin(h))
            resolver = Resolver()
            resolver.dns_python_enabled = False
            pool = ConnectionPool(resolver=resolver, connection_factory=functools.partial(
                Connection, timeout=timeout, connect_timeout=timeout))
            client = HTTPClient(connection_pool=pool)
            wparams = WARCRecorderParams(
                compress=params['compress'], extra_fields=params['extra_fields'], temp_dir=sandbox, log=params['log'],
                appending=params['appending'], digests=params['digests'], cdx=params['cdx'], max_size=params['max_size'],
                url_table=url_table, software_string='verif-sim/1',
                move_to=os.path.join(sandbox, 'moved') if params.get('move_to') else None)
            if params.get('move_to'):
                os.makedirs(os.path.join(sandbox, 'moved'), exist_ok=True)
                r.probes['warc_move'] += 1
            recorder = WARCRecorder(os.path.join(sandbox, 'out'), params=wparams)
            recorder.listen_to_http_client(client)
            # FTP sessions interleaved with the HTTP ones (FTP recorder session: control conversation + resource records)
            ftp_jobs = []
            if tape.chance(1, 4, 'ftp_sessions'):
                from harness import ftp as hftp
                fh = hftp.H()
                fh.r = r
                fh.tape = tape
                fh.loop = loop
                fh.plan = {'welcome': hftp.WELCOMES[tape.draw(len(hftp.WELCOMES), 'ftp.welcome')], 'mlsd': tape.chance(1, 2, 'ftp.mlsd'), 'user_230': False}
                fh.stape = Tape(tape.draw(1 << 20, 'ftp.shape_seed'))
                fh.multi_ok = True
                fh.unexpected_verbs = []
                fh.transfers = []
                fh.files = {}
                fh.listing_mlsd = b'type=file;size=10;modify=20180101000000; a.txt\r\n'
                fh.listing_list = b'-rw-r--r--   1 ftp  ftp        10 Jan 01  2018 a.txt\r\n'
                net.add_host('ftp.test', '10.0.1.1')
                hftp.FTPServer(fh, net, tape)
                ftp_client = FTPClient(connection_pool=pool)
                recorder.listen_to_ftp_client(ftp_client)
                for j in range(tape.between(1, 2, 'ftp.n')):
                    kind = 'listing' if tape.chance(1, 3, 'ftp.listing') else 'file'
                    path = '/pub/f%d.bin' % j if kind == 'file' else '/pub/'
                    if kind == 'file':
                        fh.files[path.encode()] = bytes((j * 7 + k) % 256 for k in range(tape.choice((0, 1, 300, 9000), 'ftp.size')))
                    ftp_jobs.append((kind, path))
                r.probes['ftp_sessions'] += 1
            nfetch = tape.between(1, 3, 'nfetchers')
            queue = list(exs)

            @asyncio.coroutine
            def one(ex):
                out = {}
                f = io.BytesIO()
                try:
                    with client.session() as session:
                        request = Request('http://origin.test' + ex['path'], method=ex['method'])
                        if ex['post'] is not None:
                            request.body = Body(io.BytesIO(ex['post']))
                            request.fields['Content-Length'] = str(len(ex['post']))
                            request.fields['Content-Type'] = 'application/x-www-form-urlencoded'
                        response = yield from session.start(request)
                        out['status'] = response.status_code
                        yield from session.download(f)
                        out['ok'] = True
                except (NetworkError, ProtocolError) as e:
                    out['error'] = type(e).__name__
                except (SimDeadlock, SimBudgetExceeded):
                    raise
                except Exception as e:
                    out['error'] = 'OTHER:' + type(e).__name__ + ':' + repr(e)[:200]
                    if isinstance(e, OSError) and io_fault is not None:
                        ex['io_failed'] = True
                ex['outcomes'] = ex.get('outcomes', []) + [out]
                r.log('phase %d %s %s -> %s' % (phase, ex['method'], ex['path'], out))

            @asyncio.coroutine
            def fetcher(fi):
                while queue:
                    ex = queue.pop(0)
                    yield from one(ex)
                    yield from asyncio.sleep(0.001)

            @asyncio.coroutine
            def ftp_fetcher():
                for kind, path in ftp_jobs:
                    f = io.BytesIO()
                    try:
                        with ftp_client.session() as session:
                            request = FTPRequest('ftp://ftp.test' + path)
                            if kind == 'file':
                                yield from session.start(request)
                                yield from session.download(f)
                            else:
                                yield from session.start_listing(request)
                                yield from session.download_listing(f)
                        r.log('phase %d ftp %s %s ok' % (phase, kind, path))
                    except (NetworkError, ProtocolError, ServerError) as e:
                        r.log('phase %d ftp %s %s -> %s' % (phase, kind, path, type(e).__name__))
                    except (SimDeadlock, SimBudgetExceeded):
                        raise
                    except Exception as e:
                        # after the injected I/O error the session may end with that OSError or with a follow-up error of the
                        # recorder session (its scratch file could not be made): either way this fetch failed; what is on disk
                        # afterwards is judged
                        if io_fault is None:
                            raise
                        r.log('phase %d ftp %s %s -> injected %s' % (phase, kind, path, type(e).__name__))
                    yield from asyncio.sleep(0.001)

            @asyncio.coroutine
            def main():
                jobs = [fetcher(i) for i in range(nfetch)]
                if ftp_jobs:
                    jobs.append(ftp_fetcher())
                yield from asyncio.gather(*jobs)

            fsx = None
            if io_fault is not None:
                # ONE I/O error at the n-th file operation on an archive or journal file (not the CDX file); the program
                # keeps recording afterwards. Everything the recorder leaves behind must still be a valid archive.
                from simlib import fs as simfs
                fsx = simfs.SimFS(sandbox)
                left = [io_fault['nth']]

                def obs(k, kind, path, data):
                    name = os.path.basename(path)
                    if name.endswith('.cdx') or fsx.fired or left[0] < 0 or kind == 'unlink':      # (a journal whose unlink fails cannot but remain)
                        return
                    if left[0] == 0:
                        if kind == 'write' and io_fault['kind'] == 'torn-error' and data:
                            fsx.plan[k] = ('torn-error', max(1, len(data) // 2), io_fault['errno'])
                        else:
                            fsx.plan[k] = ('error', io_fault['errno'])
                    left[0] -= 1
                fsx.observer = obs
                fsx.__enter__()
            try:
                env.run(main())
            except SimDeadlock as e:
                r.violate('C04', 'hang', 'client-hang', '%s; %s' % (e, ' | '.join(task_stacks(loop))))
            except SimBudgetExceeded as e:
                r.violate('C04', 'hang', 'budget', str(e))
            finally:
                if fsx is not None:
                    fsx.__exit__(None, None, None)
                    info['io_fault_fired'] = [(k, kind, name.replace('out', 'OUT'), act[0]) for k, kind, name, act in fsx.fired]
                    if fsx.fired:
                        r.probes['io_error_then_more_records'] += 1
                        r.faults['io_error.%s' % fsx.fired[0][1]] += 1
                if kill_at_end:
                    # the process dies at a quiet moment (no exchange in flight, nothing being appended): what is on disk
                    # now is all the next run finds. The recorder object is abandoned without close().
                    from simlib import fs as simfs
                    info['killed'] = True
                    info['snapshot'] = simfs.snapshot_dir(sandbox)
                    r.probes['killed_between_phases'] += 1
                    r.faults['kill_at_quiet_moment'] += 1
                try:
                    recorder.close()
                except Exception as e:
                    if not (fsx is not None and fsx.fired) and not kill_at_end:
                        r.violate('C05', 'recorder-close-failed', type(e).__name__, repr(e)[:300])
                if kill_at_end:
                    simfs.restore_dir(sandbox, info.pop('snapshot'))
                root = logging.getLogger()
                for hd in list(root.handlers):
                    root.removeHandler(hd)
                root.setLevel(logging.CRITICAL)
            r.sim_time += loop.time()
            r.callbacks += loop.callbacks
            r.events.extend(net.events)
            info['nfetch'] = nfetch
            info['conns'] = len(net.conns)
            info['seg_modes'] = [c.seg_mode for c in net.conns]
    finally:
        simset.set_tape(None)
    return info


def media_type(ct):
    """type/subtype at the start of the field value (RFC 7231 3.1.1.1 tokens); '-' if there is none."""
    if ct is None:
        return '-'
    m = re.match(r"\s*([!#$%&'*+\-.^_`|~0-9A-Za-z]+/[!#$%&'*+\-.^_`|~0-9A-Za-z]+)", ct)
    return m.group(1) if m else '-'


def check_files(r, sandbox, phases):
    """Parse every output file with the reference reader; return (records by file, cdx rows)."""
    files = {}
    all_records = []
    listing = [(n, os.path.join(sandbox, n)) for n in sorted(os.listdir(sandbox))]
    if os.path.isdir(os.path.join(sandbox, 'moved')):
        for n in sorted(os.listdir(os.path.join(sandbox, 'moved'))):
            if any(n == m for m, _ in listing):
                r.violate('C05', 'warc-move', 'file-both-moved-and-present', n)
            listing.append((n, os.path.join(sandbox, 'moved', n)))
    for name, path in listing:
        if name.endswith('-wpullinc'):
            r.violate('C05', 'journal-left', 'journal-after-clean-run', name)
            continue
        if name.endswith('.warc') or name.endswith('.warc.gz'):
            data = open(path, 'rb').read()
            recs, errors = refwarc.parse_warc_file(data, name.endswith('.gz'))
            for e in errors:
                r.violate('C05', 'invalid-warc', 'grammar', '%s: %s' % (name, e))
            files[name] = (data, recs)
            for rec in recs:
                rec.file = name
                all_records.append(rec)
    # ---- C05 per-record checks
    ids = {}
    for name, (data, recs) in files.items():
        if not recs:
            continue
        infos = [x for x in recs if x.get('WARC-Type') == 'warcinfo']
        if not infos or recs[0].get('WARC-Type') != 'warcinfo':
            r.violate('C05', 'warcinfo', 'file-does-not-start-with-warcinfo', name)
        current_info = None
        for rec in recs:
            for f in rec.errors:
                r.violate('C05', 'invalid-warc', 'folded-named-field', '%s: %s' % (name, f))
            rid = rec.get('WARC-Record-ID')
            if rid is None:
                r.violate('C05', 'invalid-warc', 'no-record-id', name)
                continue
            if rid in ids:
                r.violate('C05', 'duplicate-record-id', 'record-id-reused', '%s in %s and %s' % (rid, ids[rid], name))
            ids[rid] = name
            if rec.get('WARC-Type') == 'warcinfo':
                current_info = rid
            wi = rec.get('WARC-Warcinfo-ID')
            if rec.get('WARC-Type') != 'warcinfo' or wi is not None:
                if wi != current_info:
                    r.violate('C05', 'warcinfo', 'warcinfo-id-not-of-this-file-segment',
                              '%s: record %s (%s) points at %s, nearest preceding warcinfo of the file is %s'
                              % (name, rid, rec.get('WARC-Type'), wi, current_info))
            for fn, fv in rec.fields:
                if '\n' in fv or '\r' in fv:
                    r.violate('C05', 'invalid-warc', 'field-with-line-break', '%s: %s' % (name, fn))
            bd = rec.get('WARC-Block-Digest')
            if bd is not None:
                want = 'sha1:' + refwarc.sha1_b32(rec.block)
                if bd != want:
                    r.violate('C05', 'block-digest', rec.get('WARC-Type'), '%s: %s has %s, SHA-1 of block is %s' % (name, rid, bd, want))
            pd = rec.get('WARC-Payload-Digest')
            if pd is not None and rec.get('WARC-Type') in ('response', 'request', 'revisit'):
                end = refwarc.http_header_end(rec.block)
                if end is None:
                    r.violate('C05', 'payload-digest', 'no-header-end-in-block', '%s: %s' % (name, rid))
                else:
                    if rec.get('WARC-Type') == 'revisit':
                        # block must be exactly the header block; payload digest is that of the original payload
                        if end != len(rec.block):
                            r.violate('C05', 'revisit-truncation', 'revisit-block-not-cut-at-header-end',
                                      '%s: %s block has %d bytes, HTTP header block ends at %d' % (name, rid, len(rec.block), end))
                    else:
                        want = 'sha1:' + refwarc.sha1_b32(rec.block[end:])
                        if pd != want:
                            kind = 'canonical' if _canonical_head(rec.block[:end]) else 'noncanonical-header-format'
                            r.violate('C05', 'payload-digest', '%s:%s' % (rec.get('WARC-Type'), kind),
                                      '%s: %s payload digest %s but SHA-1 of the %d bytes after the header block (ends at %d) is %s'
                                      % (name, rid, pd, len(rec.block) - end, end, want))
    return files, all_records


def _canonical_head(head):
    """True iff the header block is formatted exactly as wpull would re-serialise it ('Name: value' CRLF)."""
    lines = head.split(b'\r\n')
    if lines[-2:] != [b'', b'']:
        return False
    for ln in lines[1:-2]:
        if b': ' not in ln or ln != ln.strip() or b'\n' in ln or b'\t' in ln:
            return False
        n, v = ln.split(b': ', 1)
        if n.decode('latin-1') != n.decode('latin-1').title() or v != v.strip():
            return False
    return True


def run(tape, prop, tier):
    r = Result()
    _seq[0] += 1
    sandbox = tempfile.mkdtemp(prefix='wv-arch-%d-' % os.getpid(), dir='/dev/shm')
    logging.disable(logging.NOTSET)
    try:
        faults_on = tape.chance(1, 3, 'faults_on')
        r.sub = 'faults' if faults_on else 'fault-free'
        nphase = 2 if tape.chance(1, 3, 'two_phases') else 1
        phases = []
        prev = None
        same_pool = {} if nphase == 2 and tape.chance(2, 3, 'dedup') else None
        url_table = None
        all_ex = []
        killed_prev = False
        for ph in range(nphase):
            params = draw_params(tape, ph, prev)
            if killed_prev:
                params['appending'] = True         # the rerun after a kill continues the same archive
            if nphase == 2:
                params['move_to'] = False          # (a second run would number its files from 0 again and collide in the target directory)
            n = tape.between(1, 6 if tier == 'thorough' else 5, 'nex')
            exs = gen_exchanges(tape, ph, n, faults_on, same_pool)
            if ph == 1 and same_pool is not None:
                # dedup: load phase-1 CDX through wpull's own reader into a URL table (as WARCVisitsTask does)
                url_table = SQLiteURLTable(':memory:')
                cdx_path = os.path.join(sandbox, 'out.cdx')
                if os.path.exists(cdx_path):
                    try:
                        with open(cdx_path, 'rb') as f:
                            rows = list(wpull.warc.format.read_cdx(f))
                        url_table.add_visits((x.get('a'), x.get('u'), x.get('k')) for x in rows if x.get('k') not in (None, '-'))
                    except Exception as e:
                        r.violate('C07', 'cdx-unreadable', 'read_cdx-failed', repr(e)[:300])
            if ph == 1 and not params['appending']:
                all_ex = []      # a fresh (non-appending) run over the same prefix: judge phase 2 alone
                # The earlier run's files stay where they are: every file this run writes to (the first one, the numbered
                # ones it rolls over into, -meta, the .cdx) must be started afresh. Numbered files it never reaches stay
                # stale by design of --warc-max-size; they are recognised afterwards by being byte-identical and set aside.
                earlier_files = {}
                for name in os.listdir(sandbox):
                    fp = os.path.join(sandbox, name)
                    if os.path.isfile(fp) and not name.endswith('.cdx'):
                        with open(fp, 'rb') as fh:
                            earlier_files[name] = fh.read()
                if tape.chance(1, 2, 'fresh_run.clean_dir'):
                    for name in earlier_files:
                        os.unlink(os.path.join(sandbox, name))
                    earlier_files = {}
                else:
                    r.probes['fresh_run_over_existing_files'] += 1
            io_fault = None
            if faults_on and tape.chance(1, 6, 'io_fault'):
                io_fault = {'nth': tape.draw(40, 'io_fault.nth'), 'kind': tape.choice(('torn-error', 'error'), 'io_fault.kind'),
                            'errno': tape.choice((28, 5), 'io_fault.errno')}
            # (a kill between the phases only makes sense when the second phase appends to what the first left behind)
            kill_at_end = ph == 0 and nphase == 2 and tape.chance(1, 4, 'kill_between_phases')
            info = run_phase(tape, r, sandbox, ph, params, exs, url_table if ph == 1 else None, io_fault=io_fault, kill_at_end=kill_at_end)
            killed_prev = kill_at_end
            if ph == 1 and not params['appending']:
                for name, before in earlier_files.items():
                    fp = os.path.join(sandbox, name)
                    if os.path.isfile(fp):
                        with open(fp, 'rb') as fh:
                            if fh.read() == before:
                                os.unlink(fp)        # not touched by this run: stale by design
            phases.append({'params': params, 'n': n, 'info': info})
            all_ex.extend(exs)
            prev = params
        files, records = check_files(r, sandbox, phases)
        judge_c04(r, all_ex, records, phases)
        judge_c07(r, sandbox, files, records, phases)
        # probes
        for ex in all_ex:
            resp = ex['resp']
            r.probes['framing.' + resp.framing] += 1
            if resp.surplus:
                r.probes['surplus'] += 1
                r.faults['surplus'] += 1
                if any(o.get('ok') for o in (ex.get('outcomes') or [])):
                    r.probes['overrun_branch'] += 1
            if resp.truncate_at is not None:
                r.probes['truncated'] += 1
                r.faults['truncate.' + resp.truncate_kind] += 1
            if ex['post'] is not None:
                r.probes['post_body'] += 1
            if resp.desc.get('lf_only'):
                r.probes['lf_only'] += 1
            if resp.desc.get('trailers'):
                r.probes['trailers'] += 1
            if resp.desc.get('huge_header'):
                r.probes['huge_header'] += 1
            if not _canonical_head(resp.head):
                r.probes['noncanonical_header'] += 1
            if resp.desc.get('payload_len') == 0:
                r.probes['empty_body'] += 1
            if resp.desc.get('payload_len', 0) > 4096:
                r.probes['big_body'] += 1
            if b'+xml' in resp.head or b'vnd.' in resp.head:
                r.probes['plus_mime'] += 1
            if b'ontent-' not in resp.head.replace(b'ontent-length', b'').replace(b'ontent-encoding', b'').replace(b'ontent-Length', b'').replace(b'ontent-Encoding', b''):
                r.probes['no_content_type'] += 1
            if resp.head.count(b'\n') > 2:
                r.probes['multiline_header'] += 1
        for ph in phases:
            p = ph['params']
            r.probes['compressed' if p['compress'] else 'uncompressed'] += 1
            r.probes['digests_on' if p['digests'] else 'digests_off'] += 1
            if p['appending']:
                r.probes['appending'] += 1
            if p['log']:
                r.probes['log_record'] += 1
            if p['extra_fields']:
                r.probes['extra_fields'] += 1
            if ph['info'].get('nfetch', 1) > 1:
                r.probes['concurrent_fetchers'] += 1
            if ph['info'].get('conns', 0) < ph['n']:
                r.probes['keepalive_reuse'] += 1
        nfiles = len([n for n in files if '-0' in n])
        if nfiles > 1:
            r.probes['rollover'] += 1
        if any(x.get('WARC-Type') == 'revisit' for x in records):
            r.probes['revisit'] += 1
        r.probes['ftp_records'] += len([x for x in records if (x.get('WARC-Target-URI') or '').startswith('ftp://')])
        r.workload = ([(ph['params'], ph['n']) for ph in phases], [(e['path'], e['method'], e['resp'].desc) for e in all_ex])
        nrec = len([x for x in records if x.get('WARC-Type') != 'warcinfo'])
        active = nfiles > 1 or any(ph['params']['appending'] or ph['params']['compress'] for ph in phases) or r.probes.get('revisit')
        if prop == 'C04':
            r.nontrivial = len(all_ex) >= 2 and any(not _canonical_head(e['resp'].head) or e['resp'].framing in ('chunked', 'close') for e in all_ex)
        elif prop == 'C05':
            r.nontrivial = nrec >= 2 and bool(active)
        else:
            r.nontrivial = len([x for x in records if x.get('WARC-Type') == 'response']) >= 2 and bool(active)
        r.sample = {'phases': [{'params': {k: (v if k != 'extra_fields' else (v and [a for a, b in v])) for k, v in ph['params'].items()},
                                'exchanges': ph['n'], 'info': ph['info']} for ph in phases],
                    'exchanges': [{'path': e['path'], 'method': e['method'], 'resp': e['resp'].desc, 'outcomes': e.get('outcomes')} for e in all_ex][:8],
                    'files': {n: len(v[1]) for n, v in files.items()},
                    'record_types': [x.get('WARC-Type') for x in records][:40]}
    finally:
        logging.disable(logging.CRITICAL)
        shutil.rmtree(sandbox, ignore_errors=True)
        # the sandbox has a random name: keep it out of everything that is hashed or compared between processes
        r.trace = [t.replace(sandbox, '<sandbox>') for t in r.trace]
        for v in r.violations:
            v.detail = v.detail.replace(sandbox, '<sandbox>')
        for ex in (r.sample or {}).get('exchanges', []) if isinstance(r.sample, dict) else []:
            for o in ex.get('outcomes') or []:
                if 'error' in o:
                    o['error'] = o['error'].replace(sandbox, '<sandbox>')
    seen = set()
    uniq = []
    for v in r.violations:
        if (v.prop, v.cls, v.sig) not in seen:
            seen.add((v.prop, v.cls, v.sig))
            uniq.append(v)
    r.violations = uniq
    return r


def judge_c04(r, all_ex, records, phases):
    by_uri = {}
    for rec in records:
        t = rec.get('WARC-Type')
        if t in ('request', 'response', 'revisit'):
            by_uri.setdefault(rec.get('WARC-Target-URI'), []).append(rec)
    known_uris = set()
    groups = {}
    for ex in all_ex:
        groups.setdefault(ex['path'], []).append(ex)
    for path, exs in groups.items():
        uri = 'http://origin.test' + path
        known_uris.add(uri)
        recs = by_uri.get(uri, [])
        reqs = [x for x in recs if x.get('WARC-Type') == 'request']
        resps = [x for x in recs if x.get('WARC-Type') in ('response', 'revisit')]
        # what the server saw / sent for this path (the same ex dict object serves every fetch of the path)
        ex0 = ([e for e in exs if e['sent'] is not None] or exs)[0]
        req_bytes = [b for e in exs for b in e['req_bytes']]
        outcomes = [o for e in exs for o in (e.get('outcomes') or [])]
        nok = sum(1 for o in outcomes if o.get('ok'))
        resp = ex0['resp']
        shape = '%s/%s/%s' % (ex0['method'], resp.status, resp.framing)
        io_failed = any(e.get('io_failed') for e in exs)
        if io_failed:
            r.probes['exchange_failed_by_io_error'] += 1
        # ---- request records
        if len(reqs) != len(req_bytes) and not io_failed:
            if not (len(reqs) <= len(outcomes) and len(req_bytes) < len(reqs)):
                r.violate('C04', 'request-record-count', shape, '%s: server received %d complete request(s), archive has %d request record(s)'
                          % (uri, len(req_bytes), len(reqs)))
        for rec, rb in zip(reqs, req_bytes):
            if io_failed:
                # an exchange that died of the injected I/O error left no request record: records and requests are not
                # aligned one to one, but every record still is one of the requests
                if rec.block not in req_bytes:
                    r.violate('C04', 'request-block', shape + ':after-io-error', '%s: request record block (%d bytes) is none of the %d requests the server received'
                              % (uri, len(rec.block), len(req_bytes)))
                continue
            if rec.block != rb:
                r.violate('C04', 'request-block', shape, '%s: request record block (%d bytes) differs from the bytes the server received (%d bytes); first diff at %d'
                          % (uri, len(rec.block), len(rb), _first_diff(rec.block, rb)))
        # ---- response records
        if len(resps) != nok and not io_failed:
            r.violate('C04', 'response-record-count', shape, '%s: %d completed exchange(s), archive has %d response/revisit record(s); outcomes %r'
                      % (uri, nok, len(resps), outcomes))
        if ex0['sent'] is not None and resps:
            sent, endkind = ex0['sent']
            ref = rfc7230.decode(sent, endkind == 'fin', 'HEAD' if ex0['method'] == 'HEAD' else 'GET')
            accepted_incomplete = (not ref.complete) and ref.error == 'truncated-trailer' and nok
            if ref.complete or accepted_incomplete:
                # a message cut inside the trailer that the client nevertheless accepted must be archived as sent
                msg = sent[:ref.extent] if ref.complete else sent
                for rec in resps:
                    if rec.get('WARC-Type') == 'revisit':
                        want = msg[:ref.header_len]
                    else:
                        want = msg
                    if rec.block != want:
                        r.violate('C04', 'response-block', '%s:%s' % (shape, rec.get('WARC-Type')),
                                  '%s: %s record block (%d bytes) differs from the message the server sent (%d bytes); first diff at %d; resp=%s'
                                  % (uri, rec.get('WARC-Type'), len(rec.block), len(want), _first_diff(rec.block, want), resp.desc))
                    ct = rec.get('WARC-Concurrent-To')
                    if ct not in [q.get('WARC-Record-ID') for q in reqs]:
                        r.violate('C04', 'concurrent-to', shape, '%s: response names %s, request records are %r'
                                  % (uri, ct, [q.get('WARC-Record-ID') for q in reqs]))
    for uri in by_uri:
        if uri not in known_uris and not (uri or '').startswith('ftp://'):
            r.violate('C04', 'foreign-record', 'record-for-unrequested-uri', uri)


def judge_c07(r, sandbox, files, records, phases):
    cdx_path = os.path.join(sandbox, 'out.cdx')
    if not os.path.exists(cdx_path) and os.path.exists(os.path.join(sandbox, 'moved', 'out.cdx')):
        cdx_path = os.path.join(sandbox, 'moved', 'out.cdx')
    if not os.path.exists(cdx_path):
        r.violate('C07', 'cdx-missing', 'no-cdx-file', '')
        return
    text = open(cdx_path, 'rb').read().decode('utf-8', 'replace')
    legend, rows, errors = refwarc.parse_cdx(text)
    for e in errors:
        r.violate('C07', 'cdx-grammar', 'line', e)
    if legend and legend != ['a', 'b', 'm', 's', 'k', 'S', 'V', 'g', 'u']:
        r.violate('C07', 'cdx-grammar', 'legend', repr(legend))
    r.probes['cdx_lines'] += len(rows)
    resp_records = [x for x in records if x.get('WARC-Type') == 'response' and
                    re.match(r'application/http; *msgtype *= *response', x.get('Content-Type', ''))]
    by_id = {}
    for row in rows:
        by_id.setdefault(row.get('u'), []).append(row)
    appended_over = any(not ph['params']['appending'] for ph in phases[1:])
    for rec in resp_records:
        rid = rec.get('WARC-Record-ID')
        n = len(by_id.get(rid, []))
        if n != 1:
            r.violate('C07', 'cdx-line-count', 'lines-per-response-record', 'record %s in %s has %d CDX lines' % (rid, rec.file, n))
    rec_ids = {x.get('WARC-Record-ID'): x for x in records}
    for row in rows:
        rec = rec_ids.get(row.get('u'))
        if rec is None:
            r.violate('C07', 'cdx-orphan', 'line-without-record', repr(row))
            continue
        if rec.get('WARC-Type') != 'response':
            r.violate('C07', 'cdx-orphan', 'line-for-non-response', '%s is %s' % (row.get('u'), rec.get('WARC-Type')))
        g = row.get('g')
        if g not in files:
            r.violate('C07', 'cdx-slice', 'file-not-found', '%r names file %r, files are %r' % (row.get('u'), g, sorted(files)))
            continue
        data, recs = files[g]
        try:
            V, S = int(row['V']), int(row['S'])
        except (ValueError, KeyError):
            r.violate('C07', 'cdx-grammar', 'offset-not-int', repr(row))
            continue
        hit = [x for x in recs if x.offset == V and x.length == S]
        if not hit:
            r.violate('C07', 'cdx-slice', 'range-is-not-one-record', 'line for %s gives %s[%d:+%d]; records of that file are at %r'
                      % (row.get('u'), g, V, S, [(x.offset, x.length) for x in recs][:12]))
            continue
        tgt = hit[0]
        if tgt.get('WARC-Record-ID') != row.get('u'):
            r.violate('C07', 'cdx-slice', 'range-is-another-record', 'line u=%s but the record at that range is %s' % (row.get('u'), tgt.get('WARC-Record-ID')))
        if tgt.get('WARC-Target-URI') != row.get('a'):
            r.violate('C07', 'cdx-field', 'a', 'a=%r record has %r' % (row.get('a'), tgt.get('WARC-Target-URI')))
        pd = tgt.get('WARC-Payload-Digest')
        want_k = pd.replace('sha1:', '', 1) if pd else '-'
        if row.get('k') != want_k:
            r.violate('C07', 'cdx-field', 'k', 'k=%r record payload digest %r' % (row.get('k'), pd))
        # status and MIME of the archived HTTP response
        end = refwarc.http_header_end(tgt.block)
        if end is not None:
            ref = rfc7230.decode(tgt.block[:end], False, 'HEAD')
            if ref.status is not None:
                big = 'header>4KiB' if end > 4096 else 'header<=4KiB'
                if row.get('s') != str(ref.status):
                    r.violate('C07', 'cdx-field', 's:' + big, 's=%r but the archived response has status %d (header block %d bytes)' % (row.get('s'), ref.status, end))
                want_m = media_type(ref.field('content-type'))
                if row.get('m') != want_m:
                    kind = 'plus-or-dot-subtype' if re.search(r'[+.]', want_m) else 'plain'
                    r.violate('C07', 'cdx-field', 'm:%s:%s' % (big, kind), 'm=%r but the archived response has Content-Type %r (media type %r)'
                              % (row.get('m'), ref.field('content-type'), want_m))


def _first_diff(a, b):
    for i, (x, y) in enumerate(zip(a, b)):
        if x != y:
            return i
    return min(len(a), len(b))
