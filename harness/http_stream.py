"""C08 (HTTP/1.1 framing under any segmentation) and C19 (streaming content decoding equals
one-shot decoding), DESIGN section 4.

Real: wpull.protocol.http.{client,stream,chunked,request,util}, wpull.network.{pool,connection}, wpull.namevalue,
      wpull.decompression, asyncio StreamReader/StreamReaderProtocol
Stub: TCP transport, DNS, clock; reactive scripted origin server (response k+1 only after request k+1)
"""
import asyncio
import functools
import io
import re

from simlib.env import SimEnv, SimDeadlock, SimBudgetExceeded, task_stacks
from simlib.runner import Result
from simlib import simset
from refs import rfc7230, httpgen

import wpull.network.pool as wpool
import wpull.protocol.abstract.client as wabs
import wpull.protocol.abstract.stream as wastream
from wpull.network.pool import ConnectionPool
from wpull.network.connection import Connection
from wpull.network.dns import Resolver
from wpull.errors import NetworkError, ProtocolError, ServerError, SSLVerificationError
from wpull.protocol.http.client import Client as HTTPClient
from wpull.protocol.http.request import Request

simset.inject(wpool, wabs, wastream)

BUDGETS = {'C08': (45, 900, 100), 'C19': (45, 900, 100)}
LEVELS = {'C08': 'exploration', 'C19': 'exploration'}
PROBES = {
    'C08': ['framing.length', 'framing.chunked', 'framing.close', 'framing.none', 'truncated', 'surplus', 'keepalive_reuse', 'interim_response', 'ignore_length_option',
            'nobody_with_length', 'head_request', 'http10', 'lf_only', 'trailers', 'overrun_branch', 'metamorphic',
            'cl_and_te', 'seg.bytes', 'seg.boundary', 'one_stream_object_for_all_exchanges', 'session_timeout_option'],
    'C19': ['coding.gzip', 'coding.deflate-zlib', 'coding.deflate-raw', 'coding.identity', 'first_piece_1byte',
            'coded_truncated', 'coded_corrupt', 'metamorphic', 'framing.chunked', 'framing.close', 'one_stream_object_for_all_exchanges', 'surplus', 'ignore_length_option', 'coded_body_cut_by_peer'],
}
_COMMON = {
    'components': {'real': ['wpull.protocol.http.client.Client/Session', 'wpull.protocol.http.stream.Stream',
                            'wpull.protocol.http.chunked.ChunkedTransferReader', 'wpull.protocol.http.request.Response',
                            'wpull.namevalue.NameValueRecord', 'wpull.decompression', 'wpull.network.pool/connection',
                            'asyncio.StreamReader (64 KiB limit) / StreamReaderProtocol / StreamWriter'],
                   'stub': ['TCP transport + segmentation/latency (simlib.net)', 'DNS', 'clock', 'origin server (scripted, reactive)']},
    'assumptions': ['reference decoder refs/rfc7230.py is correct for the generated (unambiguous) messages',
                    'zlib one-shot decoding is the reference for content codings'],
}
INFO = {
    'C08': dict(_COMMON, rule='workload = script of 1..4 exchanges (method, status, header spellings, framing, coding, payload, '
                'surplus, truncation point+kind, connection header) x per-connection segmentation mode and latencies; '
                'non-trivial iff >= 2 exchanges or a truncation/surplus/no-body-with-length case is present; distinct by '
                'script digest + segmentation mode sequence'),
    'C19': dict(_COMMON, rule='workload = script of 1..3 exchanges whose bodies are gzip / zlib-deflate / raw-deflate / identity '
                'coded (optionally truncated or corrupted inside the coded stream with intact framing) x segmentation; '
                'non-trivial iff a non-identity coding is present and the body was delivered in >= 2 pieces; distinct by '
                'script digest + segmentation'),
}


def close_announced(resp):
    """How the response tells the client that the connection ends with it (RFC 7230 6.1, 6.3), or None."""
    if resp.framing == 'close':
        return None                 # delimited by the close itself
    if re.search(br'(?im)^connection:[ \t]*close[ \t]*\r?$', resp.head):
        return 'connection-close-field'
    if resp.head.startswith(b'HTTP/1.0') and not re.search(br'(?im)^connection:[ \t]*keep-alive[ \t]*\r?$', resp.head):
        return 'http/1.0-without-keep-alive'
    return None


class ScriptServer:
    """Reactive origin: answers the k-th request (over all connections) with script[k]."""

    def __init__(self, h):
        self.h = h

    def __call__(self, conn):
        return _ConnHandler(self.h, conn)


class _ConnHandler:
    def __init__(self, h, conn):
        self.h = h
        self.buf = b''
        h.conn_log.append(conn.id)

    def on_data(self, conn, data):
        h = self.h
        self.buf += data
        while b'\r\n\r\n' in self.buf:
            req, self.buf = self.buf.split(b'\r\n\r\n', 1)
            k = h.next_req
            h.next_req += 1
            h.req_conn.append(conn.id)
            h.req_bytes.append(req + b'\r\n\r\n')
            if conn.server_closed:
                # a request on a connection whose previous response announced its end (Connection: close, or HTTP/1.0 without
                # keep-alive) and that the server is about to close: it is never answered
                h.resp_span.append((conn, len(conn.s2c), len(conn.s2c)))
                h.sent.append((b'', 'fin'))
                continue
            if k >= len(h.script):
                conn.send(b'HTTP/1.1 500 No Script\r\nContent-Length: 0\r\n\r\n')
                continue
            resp = h.script[k]
            wire = resp.wire
            h.resp_span.append((conn, len(conn.s2c), len(conn.s2c) + len(resp.message)))
            if resp.truncate_at is not None:
                sent = wire[:resp.truncate_at]
                conn.send(sent, cuts=resp.hints)
                if resp.truncate_kind == 'rst':
                    conn.reset()
                else:
                    conn.finish()
                h.sent.append((sent, resp.truncate_kind))
            else:
                stall = getattr(resp, 'stall', None)
                if stall:
                    # part of the body, a pause, the rest (a slow server; --session-timeout bounds the whole download)
                    k = len(resp.head) + stall[0]
                    conn.send(wire[:k], cuts=resp.hints)
                    conn.send(wire[k:], delay=stall[1])
                else:
                    conn.send(wire, cuts=resp.hints + [len(resp.message)])
                if resp.close_after:
                    # the FIN may reach the client after it has gone on to its next request: the response said so beforehand
                    conn.finish(delay=h.tape.choice((0.0, 0.0, 0.3, 4.0), 'close.delay') if close_announced(resp) else 0.0)
                    h.sent.append((wire, 'fin'))
                else:
                    h.sent.append((wire, None))

    def on_eof(self, conn):
        conn.finish()


class H:
    pass


def execute(tape, script, r, seg_mode=None, vary_latency=True, timeout=60.0, ignore_length=False, direct_stream=False, session_timeout=None):
    """Run the script through the real client. Returns list of outcome dicts."""
    h = H()
    h.script = script
    h.tape = tape
    h.next_req = 0
    h.conn_log = []
    h.req_conn = []
    h.req_bytes = []
    h.sent = []
    h.resp_span = []
    outcomes = []
    simset.set_tape(tape)
    env = SimEnv(tape, max_callbacks=400_000, max_vtime=100_000.0, vary_latency=vary_latency)
    try:
        with env:
            loop, net = env.loop, env.net
            if seg_mode is not None:
                net.seg_modes = (seg_mode,)
            net.add_host('origin.test', '10.0.0.1')
            net.listen('10.0.0.1', 80, ScriptServer(h))
            resolver = Resolver()
            resolver.dns_python_enabled = False
            pool = ConnectionPool(resolver=resolver, connection_factory=functools.partial(
                Connection, timeout=timeout, connect_timeout=timeout))
            if ignore_length:
                # --ignore-length: a Content-Length field is not trusted (read until close instead); chunked framing is still chunked
                from wpull.protocol.http.stream import Stream
                client = HTTPClient(connection_pool=pool, stream_factory=functools.partial(Stream, ignore_length=True))
            else:
                client = HTTPClient(connection_pool=pool)

            @asyncio.coroutine
            def one(i, resp):
                out = {'i': i}
                f = io.BytesIO()
                try:
                    with client.session() as session:
                        request = Request('http://origin.test/r%d' % i, method=resp.method)
                        response = yield from session.start(request)
                        out['status'] = response.status_code
                        out['reason'] = response.reason
                        out['version'] = response.version
                        yield from session.download(f, duration_timeout=session_timeout)
                        out['fields'] = [(n.lower(), v) for n, v in response.fields.get_all()]
                        out['ok'] = True
                except (NetworkError, ProtocolError, ServerError, SSLVerificationError) as e:
                    out['error'] = 'ProtocolError' if isinstance(e, ProtocolError) else 'NetworkError'
                    out['error_type'] = type(e).__name__
                    out['error_msg'] = str(e)[:200]
                except (SimDeadlock, SimBudgetExceeded):
                    raise
                except Exception as e:      # any other exception type escaping the client
                    out['error'] = 'OTHER'
                    out['error_type'] = type(e).__name__
                    out['error_msg'] = repr(e)[:300]
                out['body'] = f.getvalue()
                out['t'] = loop.time()
                return out

            direct = {}

            @asyncio.coroutine
            def one_direct(i, resp):
                # the same exchange driven through ONE Stream object for the whole script (the class is public API; what it
                # keeps from one response - decoder, buffers - must not leak into the next)
                from wpull.protocol.http.stream import Stream
                out = {'i': i}
                f = io.BytesIO()
                try:
                    if 'stream' not in direct:
                        direct['conn'] = yield from pool.acquire('origin.test', 80, False)
                        direct['stream'] = Stream(direct['conn'], keep_alive=True, ignore_length=ignore_length)
                    stream = direct['stream']
                    yield from stream.reconnect()
                    request = Request('http://origin.test/r%d' % i, method=resp.method)
                    request.address = direct['conn'].address
                    yield from stream.write_request(request)
                    response = yield from stream.read_response()
                    response.request = request
                    out['status'] = response.status_code
                    out['reason'] = response.reason
                    out['version'] = response.version
                    yield from stream.read_body(request, response, file=f)
                    out['fields'] = [(n.lower(), v) for n, v in response.fields.get_all()]
                    out['ok'] = True
                except (NetworkError, ProtocolError, ServerError, SSLVerificationError) as e:
                    out['error'] = 'ProtocolError' if isinstance(e, ProtocolError) else 'NetworkError'
                    out['error_type'] = type(e).__name__
                    out['error_msg'] = str(e)[:200]
                except (SimDeadlock, SimBudgetExceeded):
                    raise
                except Exception as e:
                    out['error'] = 'OTHER'
                    out['error_type'] = type(e).__name__
                    out['error_msg'] = repr(e)[:300]
                out['body'] = f.getvalue()
                out['t'] = loop.time()
                return out

            @asyncio.coroutine
            def main():
                for i, resp in enumerate(script):
                    o = yield from (one_direct if direct_stream else one)(i, resp)
                    outcomes.append(o)
                    # let deferred releases / connection_lost callbacks settle, as a crawler's next item would
                    yield from asyncio.sleep(0.001 if i % 2 == 0 else 0.5)

            try:
                env.run(main())
            except SimDeadlock as e:
                outcomes.append({'i': len(outcomes), 'error': 'HANG', 'error_msg': '%s; %s' % (e, ' | '.join(task_stacks(loop)))})
            except SimBudgetExceeded as e:
                outcomes.append({'i': len(outcomes), 'error': 'HANG', 'error_msg': 'budget %s' % e})
            r.sim_time += loop.time()
            r.callbacks += loop.callbacks
            r.events.extend(net.events)
            h.seg_modes = [c.seg_mode for c in net.conns]
            h.deliveries = net.stats.get('deliveries', 0)
    finally:
        simset.set_tape(None)
    return outcomes, h


def judge(prop, r, script, outcomes, h, label=''):
    """Compare outcomes against the reference decoder."""
    for i, resp in enumerate(script):
        if i >= len(outcomes) or i >= len(h.sent):
            if i < len(outcomes) and outcomes[i].get('error') == 'HANG':
                r.violate(prop, 'hang', 'client-hang', outcomes[i].get('error_msg', ''))
            break
        o = outcomes[i]
        sent, endkind = h.sent[i]
        ref = rfc7230.decode(sent, endkind == 'fin', resp.method, interim=resp.desc.get('interim', 0))
        shape = '%s/%s/%s%s' % (resp.method, resp.status, resp.framing, '+len' if resp.desc.get('nobody_with_length') else '')
        coded = resp.coding != 'identity'
        if o.get('error') == 'HANG':
            r.violate(prop, 'hang', 'client-hang:' + shape, o.get('error_msg', ''))
            break
        if o.get('error') == 'OTHER':
            if ref.complete and ref.payload is None and coded:
                # damaged coded stream: must be reported as a protocol error, not as some other exception
                r.violate('C19', 'corrupt-coded-wrong-error', '%s:%s' % (o.get('error_type'), resp.coding),
                          'exchange %d %s: damaged %s body raised %s instead of a protocol error: %s%s'
                          % (i, resp.desc, resp.coding, o.get('error_type'), o.get('error_msg'), label))
            # otherwise not judged here (C09 owns "no other exception escapes"); stop judging this script
            r.log('exchange %d: non-protocol exception %s' % (i, o.get('error_type')))
            break
        if resp.desc.get('interim') and o.get('ok') and o.get('status') == resp.desc.get('interim_status') and ref.status != o.get('status'):
            r.probes['interim_response'] += 1
            r.violate(prop, 'interim-response-taken-as-final', '1xx', 'exchange %d %s: the interim %d response was returned as the response; the final '
                      'response (%s) is left on the connection and becomes the answer to the next request%s' % (i, resp.desc, o['status'], ref.status, label))
            break
        if resp.desc.get('interim'):
            r.probes['interim_response'] += 1
        if getattr(resp, 'stall', None) and resp.stall[2]:
            # the body stalls for longer than --session-timeout allows: the download must end as an error, not as what had arrived
            if o.get('ok'):
                r.violate(prop, 'session-timeout-ignored', shape, 'exchange %d %s: the body paused for %.1fs with a session timeout of %.1fs, yet the '
                          'download was reported successful with %d of %d body bytes%s' % (i, resp.desc, resp.stall[1], resp.stall[3], len(o['body']), len(ref.payload or b''), label))
            break       # the connection was dropped in mid-message: nothing further is comparable
        if ref.complete and ref.payload is not None:
            # must succeed with exactly the reference result
            if not o.get('ok'):
                cls = 'good-rejected'
                p = prop
                if 'timed out' in o.get('error_msg', '').lower():
                    cls = 'waits-for-forbidden-body' if ref.framing == 'none' else 'good-timeout'
                r.violate(p, cls, '%s:%s%s' % (cls, shape, ':' + resp.coding if coded else ''),
                          'exchange %d %s: complete well-formed response rejected with %s: %s%s'
                          % (i, resp.desc, o.get('error_type'), o.get('error_msg'), label))
                break   # connection state after an error is not comparable further
            if prop == 'C08':
                if o['status'] != ref.status:
                    r.violate(prop, 'wrong-status', shape, 'exchange %d: status %r, reference %r' % (i, o['status'], ref.status))
                if _group(o['fields']) != _group(ref.fields):
                    r.violate(prop, 'wrong-fields', shape, 'exchange %d: fields %r, reference %r' % (i, o['fields'][:8], ref.fields[:8]))
            if o['body'] != ref.payload:
                if True:        # identity bodies are bodies too (C19 names them): what an earlier coded response left behind must not touch them
                    r.violate(prop, 'wrong-body', '%s:%s' % (shape, resp.coding),
                              'exchange %d %s: body len %d differs from reference len %d (first diff at %s)%s'
                              % (i, resp.desc, len(o['body']), len(ref.payload), _first_diff(o['body'], ref.payload), label))
        elif ref.complete and ref.payload is None:
            # framing complete, content coding corrupt/truncated -> must be a protocol error (C19)
            if o.get('error') == 'NetworkError' and 'timed out' not in o.get('error_msg', '').lower():
                pass
            if o.get('ok'):
                r.violate('C19', 'corrupt-coded-accepted', '%s:%s' % (resp.desc.get('damage', 'damaged'), resp.coding),
                          'exchange %d %s: damaged %s body accepted as success with %d bytes (reference: %s)%s'
                          % (i, resp.desc, resp.coding, len(o['body']), ref.payload_error, label))
            break
        else:
            # message cut short by the peer
            # (a cut inside the trailer section - after the last chunk, before the closing empty line - is a message cut
            # short like any other: the trailer fields, part of the message, are incomplete)
            lenient = (endkind == 'rst' and ref.error == 'incomplete' and ref.framing != 'close')
            if o.get('ok') and not lenient and prop == 'C19' and coded:
                r.violate(prop, 'truncated-coded-accepted', '%s:%s:%s' % (resp.coding, ref.framing, endkind),
                          'exchange %d %s: the connection was cut inside the coded body but %d bytes were handed over as a successful download%s'
                          % (i, resp.desc, len(o['body']), label))
            if o.get('ok') and not lenient and prop == 'C08':
                r.violate(prop, 'truncated-accepted', '%s:%s' % (shape, ref.error),
                          'exchange %d %s: message truncated (%s) but reported as success with %d body bytes%s'
                          % (i, resp.desc, ref.error, len(o['body']), label))
            break
        # connection reuse after the response announced the end of the connection
        if prop == 'C08' and resp.close_after and resp.truncate_at is None and close_announced(resp) and i + 1 < len(h.req_conn) and h.req_conn[i + 1] == h.req_conn[i]:
            how = close_announced(resp)
            r.violate(prop, 'reused-after-close-announced', '%s:%s' % (how, 'no-body' if ref.framing == 'none' else 'body'),
                      'exchange %d %s: the response announced that the connection ends (%s) but the next request was sent on it '
                      '(the server closes; that request is never answered)%s' % (i, resp.desc, how, label))
            break
        # connection reuse after surplus bytes
        if prop == 'C08' and resp.surplus and resp.framing == 'length' and i + 1 < len(h.req_conn):
            if h.req_conn[i + 1] == h.req_conn[i]:
                conn, start, end = h.resp_span[i]
                # Was the surplus ever returned by a body read together with body bytes? Body reads are
                # read(4096) calls issued as soon as data is available, so the last body read ends exactly at
                # the message end E (surplus invisible to it) iff the body is empty, or a delivery ended at E,
                # or the run of reads from the previous delivery boundary reaches E in whole 4096-byte steps.
                hdr_end = start + len(resp.head)
                bounds = [b for b in conn.delivery_offsets if hdr_end <= b < end]
                run_start = max(bounds) if bounds else hdr_end
                unseen = (end == hdr_end) or (end in conn.delivery_offsets) or ((end - run_start) % 4096 == 0)
                kind = 'surplus-not-in-a-body-read' if unseen else 'same-read'
                r.violate(prop, 'reused-after-surplus', 'length:' + kind, 'exchange %d: surplus bytes after a length-delimited body '
                          '(%s) but the next request was sent on the same connection%s' % (i, kind, label))
                break


def _group(fields):
    """name -> list of values in order of appearance (order across different names is not significant)."""
    g = {}
    for n, v in fields:
        g.setdefault(n, []).append(v)
    return g


def _first_diff(a, b):
    for i, (x, y) in enumerate(zip(a, b)):
        if x != y:
            return i
    return min(len(a), len(b))


def damage_coded(tape, resp):
    """C19: damage the coded stream but keep framing intact (re-frame by length)."""
    if resp.coding == 'identity' or resp.framing == 'none' or len(resp.coded) < 4:
        return False
    kind = tape.choice(('truncate', 'corrupt'), 'damage.kind')
    coded = resp.coded
    if kind == 'truncate':
        cut = 1 + tape.draw(len(coded) - 1, 'damage.cut')
        new = coded[:cut]
        resp.desc['damage'] = 'truncated'
    else:
        # byte 0 of a gzip stream is left intact: wpull documents that a body without the gzip magic is
        # passed through unchanged (lenient towards servers that mislabel plain bodies); not judged here
        lo = 1 if resp.coding == 'gzip' else 0
        pos = lo + tape.draw(len(coded) - lo, 'damage.pos')
        new = coded[:pos] + bytes([coded[pos] ^ (1 + tape.draw(255, 'damage.xor'))]) + coded[pos + 1:]
        resp.desc['damage'] = 'corrupt'
    # rebuild as a length-delimited message
    head = resp.head
    lines = [ln for ln in head.split(b'\r\n') if ln and not ln.lower().startswith((b'content-length', b'transfer-encoding'))]
    head = b'\r\n'.join(lines + [b'Content-Length: %d' % len(new)]) + b'\r\n\r\n'
    resp.head = head
    resp.body_wire = new
    resp.coded = new
    resp.framing = 'length'
    resp.surplus = b''
    resp.truncate_at = None
    resp.hints = [len(head), len(head) + 1, len(head) + 2]
    return True


def run(tape, prop, tier):
    r = Result()
    if prop == 'C19':
        n = tape.between(1, 3, 'nex')
        faults_on = tape.chance(1, 3, 'damage_on')
        script = []
        for i in range(n):
            resp = httpgen.gen_response(tape, method='GET', allow_truncate=False, allow_surplus=False,
                                        allow_nobody_with_length=False, allow_lf=False, allow_fold=False)
            script.append(resp)
        if not faults_on and tape.chance(1, 4, 'c19.surplus'):
            # surplus bytes behind the last (length-delimited, coded) body, arriving in the same read as its end: they are not
            # part of the coded stream and must not change what the decoder yields
            last = script[-1]
            if last.framing == 'length' and last.coded and len(last.coded) % 4096 and last.truncate_at is None:
                last.surplus = tape.choice((b'\r\n', b'X', b'garbage after the message'), 'c19.surplus.kind')
                last.desc['surplus'] = len(last.surplus)
        # --ignore-length: a length-delimited coded body is read until the connection closes; when the peer cuts the connection
        # inside the coded stream (FIN or RST) the decoder has not seen its end: an error, never partial content
        ignore_length = tape.chance(1, 8, 'c19.ignore_length')
        if ignore_length:
            r.probes['ignore_length_option'] += 1
            for x in script:
                x.close_after = True        # the request says 'Connection: close' under this option: the server ends every response with a close
                if x.surplus:
                    x.surplus = b''         # (under this option whatever comes before the close IS the body)
                    x.desc['surplus'] = 0
            last = script[-1]
            if last.framing == 'length' and last.coding not in ('identity', 'gzip-identity') and not last.desc.get('trailing_after_coded_stream') and len(last.coded) > 12 and not last.surplus and tape.chance(2, 3, 'c19.cut'):
                last.truncate_at = len(last.head) + 1 + tape.draw(len(last.body_wire) - 2, 'c19.cut.at')
                last.truncate_kind = tape.choice(('rst', 'fin'), 'c19.cut.kind')
                last.desc.update(truncate_at=last.truncate_at, truncate_kind=last.truncate_kind)
                r.probes['coded_body_cut_by_peer'] += 1
                r.faults['truncate.' + last.truncate_kind] += 1
        if faults_on:
            cands = [x for x in script if x.coding not in ('identity', 'gzip-identity') and not x.desc.get('trailing_after_coded_stream')]
            if cands and damage_coded(tape, cands[tape.draw(len(cands), 'damage.which')]):
                r.faults['coded_' + cands[0].desc.get('damage', 'damaged')] += 1
        r.sub = 'damaged' if faults_on else 'fault-free'
    else:
        n = tape.between(1, 4, 'nex')
        faults_on = tape.chance(1, 2, 'faults_on')
        ignore_length = prop == 'C08' and tape.chance(1, 10, 'ignore_length')
        if ignore_length:
            r.probes['ignore_length_option'] += 1
        script = []
        for i in range(n):
            method = 'HEAD' if tape.chance(1, 6, 'head') else 'GET'
            script.append(httpgen.gen_response(tape, method=method, allow_truncate=faults_on, allow_surplus=faults_on, allow_interim=(prop == 'C08'),
                                               allow_length_framing=not ignore_length))
        r.sub = 'faults' if faults_on else 'fault-free'
    session_timeout = None
    if prop == 'C08' and tape.chance(1, 8, 'session_timeout'):
        # --session-timeout: one response pauses inside its body, for less or for more than the limit
        cands = [x for x in script if x.truncate_at is None and len(x.body_wire) >= 2 and not x.desc.get('interim')]
        if cands and all(len(x.wire) <= 100_000 for x in script):
            # (the limit leaves room for the slowest delivery the transport draws - 2 s latency, 0.2 s between pieces - and the
            # long pause stays below the 60 s read timeout of the connection, so that it is this limit that fires)
            session_timeout = 30.0
            x = cands[tape.draw(len(cands), 'session_timeout.which')]
            over = tape.chance(2, 3, 'session_timeout.over')
            x.stall = (1 + tape.draw(len(x.body_wire) - 1, 'session_timeout.at'), 45.0 if over else 8.0, over, session_timeout)
            x.desc['stall'] = x.stall
            r.probes['session_timeout_option'] += 1
            if over:
                r.faults['body_stalls_beyond_session_timeout'] += 1
    direct_stream = tape.chance(1, 5, 'direct_stream') and session_timeout is None
    if direct_stream:
        r.probes['one_stream_object_for_all_exchanges'] += 1
    outcomes, h = execute(tape, script, r, ignore_length=ignore_length, direct_stream=direct_stream, session_timeout=session_timeout)
    judge(prop, r, script, outcomes, h)
    # metamorphic re-runs: same script, fixed segmentations, no latency variation
    meta = tape.chance(1, 4, 'metamorphic')
    if meta and not r.violations:
        r.probes['metamorphic'] += 1
        results = []
        for mode in (0, 4, 3):
            o2, h2 = execute(tape, script, r, seg_mode=mode, vary_latency=False, ignore_length=ignore_length, direct_stream=direct_stream, session_timeout=session_timeout)
            judge(prop, r, script, o2, h2, label=' [metamorphic re-run, segmentation mode %d]' % mode)
            results.append([(o.get('status'), o.get('body'), o.get('error')) for o in o2])
        base = [(o.get('status'), o.get('body'), o.get('error')) for o in outcomes]
        for mode, res in zip((0, 4, 3), results):
            for i, (a, b) in enumerate(zip(base, res)):
                if i > 0 and script[i - 1].surplus:
                    break       # what follows a surplus depends on whether the connection was (legitimately) dropped
                if script[i].desc.get('interim'):
                    break       # known finding C08-K2: from here on the connection is out of step; not comparable
                if a != b:
                    # only a finding if the reference says the message is complete (otherwise timing of EOF/RST may legally differ)
                    sent, endkind = h.sent[i] if i < len(h.sent) else (b'', None)
                    ref = rfc7230.decode(sent, endkind == 'fin', script[i].method)
                    both_err = bool(a[2]) and bool(b[2])     # partial output before an error is not a result
                    if ref.complete and not both_err and (a[1] != b[1] or bool(a[2]) != bool(b[2])):
                        r.violate(prop, 'segmentation-dependent', '%s/%s' % (script[i].framing, script[i].coding),
                                  'exchange %d %s: result differs between drawn segmentation and mode %d: %r vs %r'
                                  % (i, script[i].desc, mode, (a[0], len(a[1] or b''), a[2]), (b[0], len(b[1] or b''), b[2])))
                    break
    # probes / faults
    for i, resp in enumerate(script):
        r.probes['framing.' + resp.framing] += 1
        r.probes['coding.' + resp.coding] += 1
        if resp.truncate_at is not None:
            r.probes['truncated'] += 1
            r.faults['truncate.' + resp.truncate_kind] += 1
        if resp.surplus:
            r.probes['surplus'] += 1
            r.faults['surplus'] += 1
        if resp.desc.get('nobody_with_length'):
            r.probes['nobody_with_length'] += 1
        if resp.method == 'HEAD':
            r.probes['head_request'] += 1
        if resp.desc.get('version') == 'HTTP/1.0':
            r.probes['http10'] += 1
        if resp.desc.get('lf_only'):
            r.probes['lf_only'] += 1
        if resp.desc.get('trailers'):
            r.probes['trailers'] += 1
        if resp.desc.get('damage') == 'truncated':
            r.probes['coded_truncated'] += 1
        if resp.desc.get('damage') == 'corrupt':
            r.probes['coded_corrupt'] += 1
    if len(set(h.req_conn)) < len(h.req_conn):
        r.probes['keepalive_reuse'] += 1
    for m in getattr(h, 'seg_modes', []):
        if m == 4:
            r.probes['seg.bytes'] += 1
            r.probes['first_piece_1byte'] += 1
        if m == 1:
            r.probes['first_piece_1byte'] += 1
        if m == 3:
            r.probes['seg.boundary'] += 1
    r.workload = ([x.desc for x in script], getattr(h, 'seg_modes', None))
    if prop == 'C19':
        r.nontrivial = any(x.coding != 'identity' for x in script) and any(m != 0 for m in getattr(h, 'seg_modes', []))
    else:
        r.nontrivial = len(script) >= 2 or any(x.truncate_at is not None or x.surplus or x.desc.get('nobody_with_length') for x in script)
    r.sample = {'script': [x.desc for x in script], 'seg_modes': getattr(h, 'seg_modes', None),
                'outcomes': [{k: (v if k != 'body' else len(v)) for k, v in o.items() if k != 'fields'} for o in outcomes],
                'deliveries': getattr(h, 'deliveries', None)}
    for i, o in enumerate(outcomes):
        r.log('exchange %d -> %s' % (i, {k: (v if k != 'body' else len(v)) for k, v in o.items() if k != 'fields'}))
    seen = set()
    uniq = []
    for v in r.violations:
        if (v.prop, v.cls, v.sig) not in seen:
            seen.add((v.prop, v.cls, v.sig))
            uniq.append(v)
    r.violations = uniq
    return r
