"""C09 - nothing a server sends can end the crawl: bad input becomes a per-URL error (DESIGN section 4, C09).

Hostile-peer simulation in layers; the oracle is always "the only exceptions that escape are ServerError,
ProtocolError, SSLVerificationError, NetworkError (sub)classes" and, end to end, "the crawl continues".
  http   : mutated HTTP responses through Session.start/download (harness.http_stream client)
  web    : mutated responses incl. redirects/cookies/auth through WebSession; RobotsTxtChecker.can_fetch
  ftp    : mutated replies at every step and mutated LIST/MLSD listings through the FTP Session
  crawl  : full application against a site where some URLs are served by the hostile generator

Real: wpull HTTP/FTP clients, web client, robots checker, scrapers, processors, application
Stub: transport, DNS, clock, hostile servers
"""
import asyncio
import functools
import http.cookiejar
import io
import os
import re
import shutil
import tempfile

from simlib.env import SimEnv, SimDeadlock, SimBudgetExceeded, task_stacks
from simlib.runner import Result
from simlib import simset
from refs import httpgen
from refs import site as refsite
from refs.site import canon
from harness import http_stream, crawl
from harness import ftp as hftp

from wpull.network.pool import ConnectionPool
from wpull.network.connection import Connection
from wpull.network.dns import Resolver
from wpull.errors import NetworkError, ProtocolError, ServerError, SSLVerificationError
from wpull.protocol.http.client import Client as HTTPClient
from wpull.protocol.http.request import Request
from wpull.protocol.http.web import WebClient
from wpull.protocol.http.redirect import RedirectTracker
from wpull.protocol.http.robots import RobotsTxtChecker
from wpull.robotstxt import RobotsTxtPool
from wpull.cookiewrapper import CookieJarWrapper
from wpull.cookie import DeFactoCookiePolicy

P = 'C09'
BUDGETS = {'C09': (75, 1200, 40)}
LEVELS = {'C09': 'exploration'}
ALLOWED = (ServerError, ProtocolError, SSLVerificationError, NetworkError)
PROBES = {'C09': ['layer.http', 'layer.web', 'layer.robots', 'layer.ftp', 'layer.crawl', 'robots_redirected_to_other_origin', 'crawl_with_warc', 'crawl_link_extractors_subset', 'crawl_preserve_permissions', 'crawl_restrict_file_names', 'crawl_url_rewriting_option', 'crawl_post_data', 'redirect_to_directory_of_same_name', 'crawl_ftp', 'ftp_odd_size_reply', 'ftp_symlinks', 'continue_with_partial_files', 'timestamping_with_left_over_files', 'long_line', 'raw_random', 'truncated', 'odd_location',
                  'odd_cookie', 'cookie_flood', 'bad_compression', 'ftp_reply_mutated', 'ftp_listing_mutated', 'hostile_html', 'hostile_css', 'hostile_js',
                  'hostile_sitemap', 'hostile_robots', 'real_file_writer', 'per_url_error_seen', 'healthy_fetched_after_hostile', 'reset', 'stall']}
INFO = {'C09': {
    'rule': 'workload = layer (http / web / robots / ftp / crawl) x valid traffic with 1..2 grammar-aware mutations or raw random bytes or a '
            'hostile document (HTML/CSS/JS/sitemap/robots.txt) x segmentation x end-of-stream behaviour (keep open, FIN, RST, stall); '
            'non-trivial iff at least one mutated message or document actually reached the client; distinct by workload digest',
    'components': {'real': ['wpull.protocol.http (client, stream, chunked, request, web, robots)', 'wpull.protocol.ftp (client, command, stream, request, util, ls)',
                            'wpull.scraper (html5lib HTML, CSS, JavaScript, sitemap)', 'wpull.processor + wpull.application (crawl layer)',
                            'wpull.cookiewrapper/cookie', 'wpull.decompression', 'wpull.namevalue', 'wpull.url'],
                   'stub': ['transport', 'DNS', 'clock', 'hostile servers']},
    'assumptions': ['a read that ends in the (virtual) timeout is a handled network error, not a violation', 'lxml parser absent (html5lib only)'],
}}


def classify(exc):
    if isinstance(exc, ALLOWED):
        return None
    return '%s' % type(exc).__name__


# ---------------------------------------------------------------------------------------------
def layer_http(tape, r):
    n = tape.between(1, 3, 'nex')
    script = []
    descs = []
    for i in range(n):
        base = httpgen.gen_response(tape, method='GET', allow_truncate=False, allow_surplus=False)
        if tape.chance(5, 6, 'mutate'):
            wire, desc = httpgen.mutate_message(tape, base)
        else:
            wire, desc = base.message, ['valid']
        descs.append(desc)
        m = httpgen.Resp()
        m.method = 'GET' if not tape.chance(1, 8, 'head') else 'HEAD'
        m.head = wire
        m.body_wire = b''
        m.framing = base.framing
        m.coding = base.coding
        end = tape.draw(4, 'end')
        m.close_after = end == 1
        if end == 2 and len(wire) > 1:
            m.truncate_at = len(wire)
            m.truncate_kind = 'rst'
            r.probes['reset'] += 1
        elif end == 3:
            r.probes['stall'] += 1
        m.hints = [i for i, b in enumerate(wire[:400]) if b in (10, 13)][:12]
        m.desc = {'mutations': desc, 'len': len(wire), 'end': ('open', 'fin', 'rst', 'open')[end]}
        script.append(m)
        _mut_probes(r, desc)
    outcomes, h = http_stream.execute(tape, script, r, timeout=30.0)
    for i, o in enumerate(outcomes):
        if o.get('error') == 'OTHER':
            d = descs[i] if i < len(descs) else ['?']
            r.violate(P, 'unhandled-exception', 'http:%s' % o.get('error_type'),
                      'Session.start/download raised %s for a response with mutations %r (%d bytes): %s' % (o.get('error_type'), d, len(script[i].head) if i < len(script) else -1, o.get('error_msg')))
        elif o.get('error') == 'HANG':
            r.violate(P, 'hang', 'http', o.get('error_msg', '')[:600])
        elif o.get('error'):
            r.probes['per_url_error_seen'] += 1
    r.workload = ('http', [m.desc for m in script], getattr(h, 'seg_modes', None))
    r.sample = {'layer': 'http', 'script': [m.desc for m in script], 'outcomes': [{k: (v if k != 'body' else len(v)) for k, v in o.items() if k != 'fields'} for o in outcomes]}
    r.nontrivial = any(d != ['valid'] for d in descs)


def _mut_probes(r, desc):
    for d in desc:
        if d != 'valid':
            r.faults['mutation.' + d.split(':')[0].split('@')[0]] += 1
    s = ' '.join(desc)
    if 'long' in s:
        r.probes['long_line'] += 1
    if 'raw-random' in s:
        r.probes['raw_random'] += 1
    if 'truncated' in s:
        r.probes['truncated'] += 1
    if 'odd-location' in s:
        r.probes['odd_location'] += 1
    if 'cookie' in s:
        r.probes['odd_cookie'] += 1
    if 'encoding' in s or 'byte-flip' in s:
        r.probes['bad_compression'] += 1


# ---------------------------------------------------------------------------------------------
class _HostileOrigin:
    """Answers every request with the next scripted (possibly mutated) message; after the script: 200 ok."""

    def __init__(self, h):
        self.h = h

    def __call__(self, conn):
        return _HO(self.h, conn)


class _HO:
    def __init__(self, h, conn):
        self.h = h
        self.buf = b''

    def on_data(self, conn, data):
        h = self.h
        self.buf += data
        while b'\r\n\r\n' in self.buf:
            req, self.buf = self.buf.split(b'\r\n\r\n', 1)
            path = req.split(b' ')[1] if b' ' in req else b'/'
            h.requests.append(path)
            k = len(h.requests) - 1
            if path in h.fixed:
                wire, end = h.fixed[path]
            elif k < len(h.script):
                wire, end = h.script[k]
            else:
                wire, end = b'HTTP/1.1 200 OK\r\nContent-Length: 2\r\n\r\nok', 'open'
            if wire:
                conn.send(wire)
            if end == 'fin':
                conn.finish()
            elif end == 'rst':
                conn.reset()

    def on_eof(self, conn):
        conn.finish()


class HH:
    pass


def layer_web(tape, r, robots=False):
    hh = HH()
    hh.requests = []
    hh.fixed = {}
    hh.script = []
    descs = []
    n = tape.between(1, 4, 'nhops')
    flood = not robots and tape.chance(1, 10, 'cookie_flood')
    if flood:
        # state that builds up over several responses: more cookies than the per-domain limits, then cookies with paths /
        # domains / names not seen before (limits: 50 per domain in DeFactoCookiePolicy)
        r.probes['cookie_flood'] += 1
        r.probes['odd_cookie'] += 1
        per = tape.choice((11, 17, 26), 'flood.per')
        n = 0
        for i in range(5):
            cookies = b''.join(b'Set-Cookie: c%d_%d=v%d; Path=%s\r\n' % (i, j, j, tape.choice((b'/', b'/', b'/a/'), 'flood.path')) for j in range(per))
            wire = b'HTTP/1.1 302 R\r\nLocation: /flood%d\r\n' % i + cookies + b'Content-Length: 0\r\n\r\n'
            hh.script.append((wire, 'open'))
            descs.append(['cookie-flood:%d' % per])
        late = tape.choice((b'Set-Cookie: late=1; Path=/area/\r\n', b'Set-Cookie: c0_0=again; Path=/\r\n', b'Set-Cookie: late=1; Domain=.hostile.test; Path=/zz\r\n',
                            b'Set-Cookie: late=1; Path=/area/\r\nSet-Cookie: late2=2; Path=/area/sub\r\n', b'Set-Cookie: ' + b'n' * 5000 + b'=1\r\n'), 'flood.late')
        hh.script.append((b'HTTP/1.1 200 OK\r\n' + late + b'Content-Length: 2\r\n\r\nok', 'open'))
        descs.append(['cookie-after-flood:%r' % late[:40]])
    for i in range(n):
        base = httpgen.gen_response(tape, method='GET', allow_truncate=False, allow_surplus=False, big_ok=False)
        if i < n - 1 and tape.chance(1, 2, 'redirect'):
            # a (possibly odd) redirect
            loc = tape.choice((b'/next%d' % i, b'http://hostile.test/abs%d' % i, b'//hostile.test/s', b'http://[bad', b'', b'\xff\xfe', b'http://hostile.test:99999/',
                               b'/' + b'p' * 70000, b'http://' + b'h' * 300 + b'.test/'), 'loc')
            wire = b'HTTP/1.1 30%d R\r\nLocation: ' % tape.choice((1, 2, 3, 7, 8), 'code') + loc + b'\r\nContent-Length: 0\r\n\r\n'
            desc = ['redirect:%r' % loc[:30]]
            if len(loc) > 60000:
                r.probes['long_line'] += 1
        elif tape.chance(4, 5, 'mutate'):
            wire, desc = httpgen.mutate_message(tape, base)
        else:
            wire, desc = base.message, ['valid']
        _mut_probes(r, desc)
        descs.append(desc)
        hh.script.append((wire, tape.choice(('open', 'fin', 'open', 'rst'), 'end')))
    if robots:
        doc = httpgen.hostile_document(tape, 'robots')
        r.probes['hostile_robots'] += 1
        if tape.chance(1, 2, 'robots.http_ok'):
            wire = b'HTTP/1.1 200 OK\r\nContent-Type: text/plain\r\nContent-Length: %d\r\n\r\n' % len(doc) + doc
            if tape.chance(1, 3, 'robots.redirected'):
                # the file lives elsewhere: on another origin (another host, another port, https) or just another path
                loc = tape.choice((b'http://elsewhere.test/robots-real.txt', b'http://hostile.test:8080/robots-real.txt', b'/robots-real.txt',
                                   b'//other.test/robots-real.txt'), 'robots.redirected.to')
                hh.fixed[b'/robots.txt'] = (b'HTTP/1.1 30%d Moved\r\nLocation: ' % tape.choice((1, 2, 7), 'robots.redirected.code') + loc + b'\r\nContent-Length: 0\r\n\r\n', 'open')
                hh.fixed[b'/robots-real.txt'] = (wire, 'open')
                descs.append(['robots-redirected:%r' % loc])
                r.probes['robots_redirected_to_other_origin'] += 1
            else:
                hh.fixed[b'/robots.txt'] = (wire, 'open')
            descs.append(['hostile-robots-body'])
    outcome = {}
    simset.set_tape(tape)
    env = SimEnv(tape, max_callbacks=400_000, max_vtime=1_000_000.0)
    try:
        with env:
            loop, net = env.loop, env.net
            net.add_host('hostile.test', '10.9.0.1')
            net.wildcard_dns = '10.9.0.1'
            net.listen('10.9.0.1', 80, _HostileOrigin(hh))
            net.listen('10.9.0.1', 8080, _HostileOrigin(hh))
            resolver = Resolver()
            resolver.dns_python_enabled = False
            pool = ConnectionPool(resolver=resolver, connection_factory=functools.partial(Connection, timeout=30.0, connect_timeout=30.0))
            http_client = HTTPClient(connection_pool=pool)

            def request_factory(*a, **k):
                req = Request(*a, **k)
                req.fields['User-Agent'] = 'Wpull/verif'
                return req
            cj = http.cookiejar.CookieJar()
            cj.set_policy(DeFactoCookiePolicy(cookie_jar=cj))
            web_client = WebClient(http_client, request_factory=request_factory,
                                   redirect_tracker_factory=functools.partial(RedirectTracker, max_redirects=5),
                                   cookie_jar=CookieJarWrapper(cj))

            @asyncio.coroutine
            def visit():
                try:
                    request = request_factory('http://hostile.test/start')
                    if robots:
                        checker = RobotsTxtChecker(web_client=web_client, robots_txt_pool=RobotsTxtPool())
                        outcome['can_fetch'] = yield from checker.can_fetch(request, file=io.BytesIO() if False else None)
                        return
                    if tape.chance(1, 3, 'login'):
                        request.username, request.password = 'u', 'p'
                    session = web_client.session(request)
                    with session:
                        while not session.done():
                            if session.next_request().url_info.scheme not in ('http', 'https'):
                                break       # the processor's SchemeFilter refuses such a hop before it is fetched
                            yield from session.start()
                            yield from session.download(io.BytesIO())
                    outcome['ok'] = True
                except ALLOWED as e:
                    outcome['error'] = type(e).__name__ + ': ' + str(e)[:80]
                    r.probes['per_url_error_seen'] += 1
                except (SimDeadlock, SimBudgetExceeded):
                    raise
                except Exception as e:
                    import traceback
                    outcome['other'] = type(e).__name__
                    outcome['trace'] = ''.join(traceback.format_exception(type(e), e, e.__traceback__))[-900:]
            cwd = os.getcwd()
            tmp = tempfile.mkdtemp(prefix='wv-host-', dir='/dev/shm')
            os.chdir(tmp)
            try:
                env.run(visit())
            except SimDeadlock as e:
                r.violate(P, 'hang', 'web', '%s; %s' % (e, ' | '.join(task_stacks(loop))[:600]))
            except SimBudgetExceeded as e:
                r.violate(P, 'hang', 'web-budget', str(e))
            finally:
                os.chdir(cwd)
                shutil.rmtree(tmp, ignore_errors=True)
            r.sim_time += loop.time()
            r.callbacks += loop.callbacks
            r.events.extend(net.events)
    finally:
        simset.set_tape(None)
    if 'other' in outcome:
        which = 'RobotsTxtChecker.can_fetch' if robots else 'WebSession'
        r.violate(P, 'unhandled-exception', '%s:%s' % ('robots' if robots else 'web', outcome['other']),
                  '%s raised %s; hops %r; %s' % (which, outcome['other'], descs, outcome.get('trace', '')[-500:]))
    r.workload = ('robots' if robots else 'web', descs)
    r.sample = {'layer': 'robots' if robots else 'web', 'hops': descs, 'outcome': {k: v for k, v in outcome.items() if k != 'trace'}, 'requests': [x[:40].decode('latin-1') for x in hh.requests]}
    r.nontrivial = any(d != ['valid'] for d in descs)


# ---------------------------------------------------------------------------------------------
FTP_BAD_REPLIES = [b'', b'\r\n', b'abc\r\n', b'99 short\r\n', b'2000 long\r\n', b'227 Entering Passive Mode (1,2,3)\r\n',
                   b'227 (999,999,999,999,999,999)\r\n', b'227 no address\r\n', b'213 notanumber\r\n', b'213 ' + b'9' * 400 + b'\r\n',
                   b'150 ' + b'x' * 70000, b'\xff\xfe\r\n', b'230\r\n', b'230-\r\n230 \r\n', b'220-a\r\n' + b'y' * 70000 + b'\r\n220 b\r\n',
                   b'227 (10,0,1,1,255,255)\r\n', b'227 (10,0,1,1,0,0)\r\n', b'227 (10,0,1,1,999,999)\r\n', b'227 (10,9,0,1,256,1)\r\n', b'331 \x00\x01\r\n', b'200 ok\n', b'200 ok\r200 again\r\n',
                   b'550-\r\n', b'1xx bad\r\n', b'-1 neg\r\n', b'226\r\n226 \r\n']
FTP_BAD_LISTINGS = [b'\xff\xfe\x00garbage\r\n', b'total 0\r\n', b'-rw-r--r--\r\n', b'drwxr-xr-x 2 ftp ftp 4096 Foo 99 9999 x\r\n', b'01-01-18 99:99PM <DIR> x\r\n',
                    b'type=file;size=abc;modify=2018; a\r\ntype=dir;modify=99999999999999; b\r\n', b'=;=;;; \r\n', b' ' * 5000 + b'\r\n',
                    b'-rw-r--r-- 1 ftp ftp 99999999999999999999999999 Jan 01 2018 big\r\n', b'lrwxrwxrwx 1 ftp ftp 4 Jan 01 2018 a -> \r\n', b'x' * 70000,
                    b'type=file;size=10;modify=20180101000000;\r\n', b'Jan 01 2018\r\n', b'\r\n\r\n\r\n', b'-rw-r--r-- 1 ftp ftp 10 Feb 30 25:61 a\r\n']


def gen_listing_rows(tape):
    """LIST rows in the common formats with one field mutated per row (dates in particular)."""
    rng = tape.subrng('listing.rng')
    dates_unix = ['Jan 01  2018', 'Jan 01 12:30', 'Feb 30  2018', 'Jan 00 2018', 'Foo 01 2018', 'Jan 01 99999', 'Jan 01 25:61', 'Jan 32 12:30', '10-23-201', '2018-13-45 10:00',
                  '01-01-18', '99-99-9999', '10-23-20141', 'Jan  1  201', '\u4e00\u6708 01 2018', 'Jan 01 0', '1 Jan 2018', '0000-00-00 00:00', 'Dec 31 23:59']
    dates_dos = ['01-01-18  10:00AM', '10-23-201  09:00AM', '13-45-2018  99:99PM', '00-00-00  00:00AM', '10-23-2014  12:00XM', '1-1-1  1:1AM', '10-23-100  09:00AM',
                 '10-23-999  09:00PM', '99-99-99  12:60PM', '10/23/2014  09:00AM']
    rows = []
    style = tape.choice(('unix', 'dos', 'mixed'), 'listing.style')
    for _ in range(tape.between(1, 4, 'listing.nrows')):
        if style == 'unix' or (style == 'mixed' and rng.random() < 0.5):
            perm = rng.choice(['-rw-r--r--', 'drwxr-xr-x', 'lrwxrwxrwx', '?---------', '-rw-r--r--+', 'b---------', ''])
            size = rng.choice(['10', '0', '99999999999999999999', '-1', 'abc', '4,  0', ''])
            date = rng.choice(dates_unix)
            name = rng.choice(['a.txt', 'sub', 'a -> b', ' ', 'x' * 300, '\xe9', '..', 'a\tb', ''])
            rows.append('%s   1 ftp  ftp  %8s %s %s' % (perm, size, date, name))
        else:
            date = rng.choice(dates_dos)
            rows.append('%s %s %s' % (date, rng.choice(['<DIR>', '10', 'abc', '', '99999999999999999999']), rng.choice(['x', 'a b', '', 'y' * 200])))
    return ('\r\n'.join(rows) + '\r\n').encode('utf-8', 'surrogateescape')


def gen_mlsd_rows(tape):
    """MLSD rows (RFC 3659) with mutated facts."""
    rng = tape.subrng('mlsd.rng')
    modify = ['20180101000000', '20180101000000.5', '20180101000000.1234567', '20180101000000.123456789012', '2018', '99999999999999', '00000000000000',
              '20181301000000', '20180132000000', '20180101250000', 'abcdefghijklmn', '', '20180101000000.', '-0180101000000', '2018010100000\u0660']
    size = ['10', '0', '-1', '1e3', '99999999999999999999999', 'abc', '', '1_0', '\u0661\u0662']
    typ = ['file', 'dir', 'cdir', 'pdir', 'OS.unix=slink:/x', '', 'FILE', 'x' * 300]
    rows = []
    for _ in range(tape.between(1, 4, 'mlsd.nrows')):
        facts = []
        if rng.random() < 0.9:
            facts.append('%s=%s' % (rng.choice(['type', 'Type', 'TYPE']), rng.choice(typ)))
        if rng.random() < 0.8:
            facts.append('size=%s' % rng.choice(size))
        if rng.random() < 0.9:
            facts.append('%s=%s' % (rng.choice(['modify', 'Modify']), rng.choice(modify)))
        if rng.random() < 0.3:
            facts.append(rng.choice(['perm=', 'unique=\x00', '=novalue', 'nokey', ';;', 'UNIX.mode=0644']))
        name = rng.choice(['a.txt', 'sub', '', ' ', 'x' * 300, '\xe9', 'a;b=c', ' leading'])
        rows.append(';'.join(facts) + '; ' + name)
    return ('\r\n'.join(rows) + '\r\n').encode('utf-8', 'surrogateescape')


def layer_ftp(tape, r):
    fetches, user, pw, plan = hftp.gen_script(tape, False)
    nm = tape.between(1, 2, 'ftp.nmut')
    steps = ('welcome', 'USER', 'PASS', 'TYPE', 'PASV', 'SIZE', 'RETR', 'MLSD', 'LIST', 'RETR.begin', 'RETR.end', 'LIST.begin', 'LIST.end', 'MLSD.begin', 'MLSD.end')
    muts = []
    for _ in range(nm):
        step = steps[tape.draw(len(steps), 'ftp.step')]
        rep = FTP_BAD_REPLIES[tape.draw(len(FTP_BAD_REPLIES), 'ftp.reply')]
        if step == 'welcome':
            plan['welcome'] = rep or b'\r\n'
        else:
            plan[('reply', step, tape.draw(2, 'ftp.occ'))] = rep
        muts.append((step, rep[:40]))
        r.probes['ftp_reply_mutated'] += 1
        r.faults['ftp_reply_mutation.' + step] += 1
        if len(rep) > 60000:
            r.probes['long_line'] += 1
    files = {}
    import urllib.parse
    for fx in fetches:
        if fx['kind'] == 'file':
            try:
                files[urllib.parse.unquote(fx['path']).encode('utf-8', 'surrogateescape')] = b'data' * 10
            except Exception:
                pass
    listing = None
    if tape.chance(1, 2, 'ftp.listing'):
        k = tape.draw(4, 'ftp.listing.gen')
        if k == 0:
            listing = FTP_BAD_LISTINGS[tape.draw(len(FTP_BAD_LISTINGS), 'ftp.listing.k')]
            plan['mlsd'] = tape.chance(1, 3, 'ftp.listing.mlsd')
        elif k == 1:
            listing = gen_mlsd_rows(tape)
            plan['mlsd'] = True                                    # machine listing parser
        else:
            listing = gen_listing_rows(tape)
            plan['mlsd'] = False                                   # LIST: that is where the heuristics parsers run
        for fx in fetches:
            fx['kind'] = 'listing'
        r.probes['ftp_listing_mutated'] += 1
        r.faults['ftp_listing_mutation'] += 1
    orig_exec = hftp.execute
    outcomes, h, replies, sends = _ftp_execute(tape, r, fetches, user, pw, plan, files, listing)
    for o in outcomes:
        err = o.get('error')
        if err and err.startswith('OTHER:'):
            r.violate(P, 'unhandled-exception', 'ftp:%s' % err[6:], 'FTP session raised %s with mutated replies %r listing %r: %s'
                      % (err[6:], muts, listing and listing[:40], o.get('error_msg')))
        elif err == 'HANG':
            r.violate(P, 'hang', 'ftp', o.get('error_msg', '')[:600])
        elif err and not err.startswith('URL:'):
            r.probes['per_url_error_seen'] += 1
    r.workload = ('ftp', fetches, muts, listing)
    r.sample = {'layer': 'ftp', 'fetches': fetches, 'mutated_replies': [(s, repr(x)) for s, x in muts], 'listing': repr(listing and listing[:60]),
                'outcomes': [{k: (v if k != 'body' else len(v)) for k, v in o.items()} for o in outcomes]}
    r.nontrivial = True


def _ftp_execute(tape, r, fetches, user, pw, plan, files, listing):
    if listing is None:
        return hftp.execute(tape, r, fetches, user, pw, plan, files)
    # temporarily replace the listings the server model sends
    orig = hftp.execute

    class _Patch:
        pass
    real_H = hftp.H

    class PatchedH(real_H):
        def __setattr__(self, k, v):
            if k in ('listing_mlsd', 'listing_list'):
                v = listing
            object.__setattr__(self, k, v)
    hftp.H = PatchedH
    try:
        return hftp.execute(tape, r, fetches, user, pw, plan, files)
    finally:
        hftp.H = real_H


# ---------------------------------------------------------------------------------------------
def layer_crawl(tape, r, tier):
    sandbox = tempfile.mkdtemp(prefix='wv-hostc-%d-' % os.getpid(), dir='/dev/shm')
    cwd = os.getcwd()
    try:
        os.chdir(sandbox)
        site, starts, pages, assets, redirects = refsite.gen_site(tape, nhosts=1, npages=tape.between(3, 6, 'site.npages'), with_redirects=False)
        main = site.origins[0]
        # hostile resources linked from the start page
        hostile = []
        nh = tape.between(1, 3, 'nhostile')
        for i in range(nh):
            kind = tape.choice(('html', 'css', 'js', 'sitemap', 'http'), 'hostile.kind')
            ext = {'html': 'html', 'css': 'css', 'js': 'js', 'sitemap': 'xml', 'http': 'bin'}[kind]
            res = site.add(main, '/hostile/h%d.%s' % (i, ext), 'bin')
            res.hostile_kind = kind
            if kind == 'http':
                base = httpgen.gen_response(tape, method='GET', allow_truncate=False, allow_surplus=False, big_ok=False)
                res.wire, res.mut = httpgen.mutate_message(tape, base)
                res.end = tape.choice(('open', 'fin'), 'hostile.end')      # a reset would (legitimately) fail the next URL on that keep-alive connection
                _mut_probes(r, res.mut)
            else:
                doc = httpgen.hostile_document(tape, kind)
                ct = {'html': 'text/html', 'css': 'text/css', 'js': 'application/javascript', 'sitemap': 'application/xml'}[kind].encode()
                if tape.chance(1, 3, 'hostile.charset'):
                    ct = ct + b'; charset=' + tape.choice(httpgen.ODD_CONTENT_TYPES, 'hostile.charset.v').split(b'charset=')[-1]
                extra_h = b''
                if tape.chance(1, 4, 'hostile.lastmod'):
                    extra_h = b'Last-Modified: ' + tape.choice((b'garbage', b'Mon, 99 Foo 99999 99:99:99 GMT', b'0', b'\xff'), 'hostile.lastmod.v') + b'\r\n'
                res.wire = b'HTTP/1.1 200 OK\r\nContent-Type: ' + ct + b'\r\n' + extra_h + b'Content-Length: %d\r\n\r\n' % len(doc) + doc
                res.end = 'open'
                res.mut = ['hostile-%s' % kind]
                r.probes['hostile_' + kind] += 1
                r.faults['hostile_document.' + kind] += 1
            hostile.append(res)
            src = starts[0] if tape.chance(2, 3, 'hostile.from_start') else pages[tape.draw(len(pages), 'hostile.from')]
            if kind in ('css', 'js'):
                src.inlines.append((res, res.url, 'css' if kind == 'css' else 'script'))
            else:
                src.links.append((res, res.url))
        # the classic redirect '/d1' -> '/d1/': with the default file writer the name 'HOST/d1' is chosen for the redirecting URL
        # while a sibling worker may create the directory 'HOST/d1/' for a page below it
        dirs = [pg for pg in pages if pg.path.endswith('/') and pg.path != '/' and pg.query is None and pg.origin.key() == main.key()]
        if dirs and tape.chance(1, 3, 'crawl.dir_redirect'):
            dp = dirs[tape.draw(len(dirs), 'crawl.dir_redirect.which')]
            if site.lookup(main.key(), dp.path.rstrip('/')) is None:
                rr = site.add(main, dp.path.rstrip('/'), 'redirect')
                rr.redirect_to = dp
                rr.redirect_code = tape.choice((301, 302), 'crawl.dir_redirect.code')
                rr.redirect_spelling = dp.path
                starts[0].links.append((rr, rr.url))
                r.probes['redirect_to_directory_of_same_name'] += 1
        with_post = tape.chance(1, 6, 'crawl.post')
        post_replayed = False
        if with_post:
            for i in range(tape.between(1, 2, 'crawl.post.nredir')):
                rr = site.add(main, '/moved%d' % i, 'redirect')
                rr.redirect_to = pages[tape.draw(len(pages), 'crawl.post.redir.dst')]
                rr.redirect_code = tape.choice((301, 302, 303, 307, 308, 307, 308), 'crawl.post.redir.code')
                post_replayed = post_replayed or rr.redirect_code in (307, 308)
                rr.redirect_spelling = rr.redirect_to.url
                starts[0].links.append((rr, rr.url))
        with_robots = tape.chance(1, 3, 'robots')
        # an FTP origin next to the HTTP one: file URLs (the processor lists the parent directory first), directory URLs,
        # with the control or data connection failing / answering oddly at a drawn command
        ftp_urls = []
        ftp_symlinks = False
        ftp_faults = {}
        ftp_tree = None
        if tape.chance(1, 3, 'crawl.ftp'):
            from harness import ftpcrawl
            ftp_tree = ftpcrawl.gen_tree(tape)
            files = [p for p, v in ftp_tree.items() if isinstance(v, bytes)]
            for _ in range(tape.between(1, 2, 'crawl.ftp.nurls')):
                k = tape.draw(3, 'crawl.ftp.urlkind')
                if k == 0 and files:
                    ftp_urls.append('ftp://ftp.test' + files[tape.draw(len(files), 'crawl.ftp.file')])
                elif k == 1:
                    ftp_urls.append('ftp://ftp.test/')
                else:
                    ftp_urls.append('ftp://ftp.test/nosuch%d.bin' % tape.draw(3, 'crawl.ftp.nosuch'))
            if tape.chance(1, 3, 'crawl.ftp.hidden'):
                ftp_tree['/.hidden.txt'] = b'served on request, absent from every listing'
                ftp_urls.append('ftp://ftp.test/.hidden.txt')
            if tape.chance(1, 4, 'crawl.ftp.refused'):
                ftp_urls.append('ftp://ftp.test:2121/nobody-listens.txt')        # connection refused
            for _ in range(tape.between(1, 2, 'crawl.ftp.nfaults')):
                kind = tape.choice(('rst', 'fin', 'data_rst', 'reply', 'reply', 'stall'), 'crawl.ftp.fault')
                at = tape.draw(14, 'crawl.ftp.at')
                ftp_faults[at] = ('reply', FTP_BAD_REPLIES[tape.draw(len(FTP_BAD_REPLIES), 'crawl.ftp.reply')]) if kind == 'reply' else kind
            if tape.chance(1, 3, 'crawl.ftp.pasv_reuse'):
                ftp_faults['pasv_reuse'] = True
            if tape.chance(1, 4, 'crawl.ftp.size_reply'):
                ftp_faults['size_reply'] = tape.choice((b'213 12 bytes\r\n', b'213 \r\n', b'550 no size here\r\n', b'213 -5\r\n',
                                                        b'213 99999999999999999999999\r\n', b'213 1e3\r\n'), 'crawl.ftp.size_reply.v')
                r.probes['ftp_odd_size_reply'] += 1
            if tape.chance(1, 4, 'crawl.ftp.symlinks'):
                # symbolic links in the listings, the same name more than once; --retr-symlinks=off makes wpull create them locally
                d0 = sorted(p for p, v in ftp_tree.items() if isinstance(v, list))[0]
                ftp_tree[d0] += [('ln0', 'symlink'), ('ln0', 'symlink'), ('ln1', 'symlink')]
                if tape.chance(1, 2, 'crawl.ftp.symlinks.nul'):
                    ftp_tree[d0].append(('ln\x00x', 'symlink'))
                ftp_symlinks = True
                r.probes['ftp_symlinks'] += 1
            r.probes['crawl_ftp'] += 1
        site.finalize()
        opts = {'robots': with_robots, 'recursive': True, 'level': 'inf', 'page_requisites': True, 'tries': 2}
        extra = ['--timeout', '20']
        if tape.chance(1, 2, 'sitemaps'):
            extra.append('--sitemaps')
        if tape.chance(1, 4, 'crawl.restrict_file_names'):
            # how URLs become local file names (default file writer): names are dictated by the links the server supplies
            extra = extra + ['--restrict-file-names=' + tape.choice(('windows', 'windows,lower', 'ascii', 'nocontrol,upper', 'unix,ascii'), 'crawl.rfn.v')]
            r.probes['crawl_restrict_file_names'] += 1
        if tape.chance(1, 5, 'crawl.link_extractors'):
            # a subset of the scrapers: code that hands work from one scraper to another must cope with the other being absent
            extra = extra + ['--link-extractors=' + tape.choice(('html', 'html,css', 'css', 'javascript', 'html,javascript'), 'crawl.le.v')]
            r.probes['crawl_link_extractors_subset'] += 1
        if ftp_tree is not None and tape.chance(1, 3, 'crawl.preserve_permissions'):
            extra = extra + ['--preserve-permissions']          # (after each FTP file its parent directory is listed again)
            r.probes['crawl_preserve_permissions'] += 1
        # options that rewrite every extracted link (the rewriter runs inside link extraction)
        if tape.chance(1, 4, 'crawl.escaped_fragment'):
            extra.append('--escaped-fragment')
            r.probes['crawl_url_rewriting_option'] += 1
        if tape.chance(1, 6, 'crawl.strip_session_id'):
            extra.append('--strip-session-id')
            r.probes['crawl_url_rewriting_option'] += 1
        dbpath = os.path.join(sandbox, 'db.sqlite')
        if ftp_symlinks:
            extra = extra + ['--retr-symlinks=off']
        if with_post:
            # every request is a POST with a body; 307/308 redirects replay it
            extra = extra + ['--post-data', 'a=1&b=%d' % tape.draw(1000, 'crawl.post.n')]
            r.probes['crawl_post_data'] += 1
        with_warc = tape.chance(1, 3, 'crawl.warc')
        if with_warc:
            # everything is also archived: the recorder listens to every session, the failing ones included
            extra = extra + ['--warc-file', os.path.join(sandbox, 'hostile-archive'), '--warc-tempdir', sandbox] + (['--no-warc-compression'] if tape.chance(1, 2, 'crawl.warc.plain') else [])
            r.probes['crawl_with_warc'] += 1
        argv = crawl.argv_for(opts, [s.url for s in starts] + ftp_urls, dbpath, extra=extra)
        if tape.chance(1, 2, 'real_files'):
            argv.remove('--delete-after')          # default file writer: documents are saved under the sandbox (cwd)
            r.probes['real_file_writer'] += 1
            if not with_warc and tape.chance(1, 3, 'continue'):        # (wpull refuses --continue together with WARC output)
                # --continue with files left by an earlier run: the server is free to ignore the Range request (200), to
                # answer 416, or to send a 206 that does not fit
                # ... or -N (timestamping): the files of the earlier run are compared with what the server says about them
                if tape.chance(1, 3, 'continue.or_timestamping'):
                    argv.append('-N')
                    r.probes['timestamping_with_left_over_files'] += 1
                else:
                    argv.append('--continue')
                    r.probes['continue_with_partial_files'] += 1
                # (files of the FTP origin as well: the client then asks SIZE and REST before RETR)
                for fu in ftp_urls:
                    rel = fu.split('://', 1)[1]
                    if rel.endswith('/') or ':' in rel.split('/', 1)[0]:
                        continue
                    fp = os.path.join(sandbox, rel)
                    os.makedirs(os.path.dirname(fp), exist_ok=True)
                    with open(fp, 'wb') as f:
                        f.write(b'conte')
                for pg in pages[:tape.between(1, 3, 'continue.n')]:
                    if pg.origin.key() != main.key():
                        continue
                    rel = pg.path.lstrip('/')
                    if not rel or rel.endswith('/'):
                        rel += 'index.html'
                    fp = os.path.join(sandbox, main.host, rel)
                    os.makedirs(os.path.dirname(fp), exist_ok=True)
                    with open(fp, 'wb') as f:
                        f.write(b'<html>partial' if tape.chance(1, 2, 'continue.partial') else (pg.body or b'x'))
        concurrency = tape.choice((1, 2, 3), 'concurrency')

        def setup(h, server, net):
            if ftp_tree is not None:
                ftpcrawl.FtpTreeServer(h, net, ftp_tree, mlsd=tape.chance(1, 2, 'crawl.ftp.mlsd'), faults=ftp_faults)
            for res in hostile:
                def beh(conn, entry, rs, res=res):
                    conn.send(res.wire)
                    if res.end == 'fin':
                        conn.finish()
                    elif res.end == 'rst':
                        conn.reset()
                server.behaviour[(main.key(), res.target)] = beh
            if with_robots:
                doc = httpgen.hostile_document(tape, 'robots')
                r.probes['hostile_robots'] += 1

                def rb(conn, entry, rs):
                    entry['robots'] = True
                    server.send(conn, 200, 'OK', [('Content-Type', 'text/plain')], doc, chunked=False)
                server.behaviour[(main.key(), '/robots.txt')] = rb
            if '--sitemaps' in extra:
                sm = httpgen.hostile_document(tape, 'sitemap')
                r.probes['hostile_sitemap'] += 1

                def smb(conn, entry, rs):
                    server.send(conn, 200, 'OK', [('Content-Type', 'application/xml')], sm, chunked=False)
                server.behaviour[(main.key(), '/sitemap.xml')] = smb
        out = crawl.run_app(tape, r, site, argv, concurrency, sandbox, setup=setup, budget_vtime=500_000.0)
        rows = crawl.read_rows(dbpath)
        server = out['server']
        muts = [(x.target, x.mut) for x in hostile] + ([('ftp', ftp_urls, sorted(ftp_faults.items(), key=str))] if ftp_tree is not None else [])
        if out.get('hang'):
            r.violate(P, 'hang', 'crawl', out['hang'][:900])
        elif out.get('exception'):
            r.violate(P, 'crawl-ended', 'exception-escaped-app-run', 'hostile resources %r: %s' % (muts, out['exception'][-900:]))
        elif out['crashed'] or out['exit'] == 1 or out.get('fatal'):
            # (out['fatal'] is filled by Application.run's pipeline-level handler only: whatever its type, the exception
            # left a pipeline and ended the crawl instead of failing one URL)
            fatal = (out.get('fatal') or [''])[0]
            # the line that names the exception (its message may run over several lines)
            last = [ln for ln in fatal.strip().split('\n') if re.match(r'^[A-Za-z_][\w.]*(Error|Exception|Exit|Interrupt|Warning)\b', ln)][-1:] \
                or [ln for ln in fatal.strip().split('\n') if ln.strip()][-1:] or ['?']
            where = [ln.strip() for ln in fatal.split('\n') if 'File "' in ln and '/wpull/' in ln][-1:] or ['?']
            r.violate(P, 'crawl-ended', '%s:%s' % ('unexpected-crash-path' if out['crashed'] or out['exit'] == 1 else 'pipeline-ended-by-error', last[0].split(':')[0].strip()[:40]),
                      'an exception left the download pipeline and ended the crawl (exit %r) with hostile resources %r: %s at %s\n%s'
                      % (out['exit'], muts, last[0][:200], where[0][:200], fatal[-700:]))
        else:
            # every healthy URL must still be fetched (reference crawl over the healthy part; hostile resources are leaves)
            own = [main.host]
            # (only when every hostile resource is a document inside well-framed HTTP: a malformed HTTP message can
            # legitimately desynchronise its keep-alive connection and fail the next URL on it as a per-URL error)
            # (nor with --continue: a page whose left-over file the server does not continue fails, and what it links to with it)
            # (--post-data: wpull replays a POST over a 307/308 hop with the body file at its end, the hop times out - a failure
            # of that URL, handled per URL, and no subject of C09 - so what lies behind such a hop is not demanded)
            if not with_robots and ftp_tree is None and '--continue' not in argv and '-N' not in argv and not any(a.startswith('--link-extractors') for a in argv) and not post_replayed and all(x.hostile_kind != 'http' for x in hostile):
                ref_rows, expected = crawl.reference_crawl(site, starts, opts, own)
                reqs = {canon(e['url']) for e in server.log}
                for u in expected:
                    if u not in reqs:
                        r.violate(P, 'crawl-did-not-continue', 'healthy-url-not-fetched', '%s was not fetched; hostile resources %r; exit %r' % (u, muts, out['exit']))
                        break
                else:
                    r.probes['healthy_fetched_after_hostile'] += 1
            for x in rows:
                if x['status'] not in ('done', 'skipped', 'error'):
                    r.violate(P, 'row-stuck', x['status'], 'row %s ended %s' % (x['url'], x['status']))
                if '/hostile/' in x['url'] and x['status'] == 'error':
                    r.probes['per_url_error_seen'] += 1
        r.workload = ('crawl', muts, [s.url for s in starts], concurrency, [(x.kind, x.url, [sp for _, sp in x.links]) for x in site.order], with_robots, extra)
        r.sample = {'layer': 'crawl', 'hostile': [list(x) for x in muts], 'exit': out['exit'], 'requests': [e['url'] for e in server.log][:30],
                    'rows': [(x['url'], x['status'], x['try_count']) for x in rows][:20]}
        r.nontrivial = any(('/hostile/' in e['url']) for e in server.log)
        for e in server.log:
            r.log('t=%.3f %s' % (e['t'], e['url']))
        r.log('exit=%r' % out['exit'])
    finally:
        os.chdir(cwd)
        shutil.rmtree(sandbox, ignore_errors=True)


def run(tape, prop, tier):
    r = Result()
    layer = tape.weighted([(4, 'http'), (3, 'web'), (2, 'robots'), (4, 'ftp'), (4, 'crawl')], 'layer')
    r.sub = layer
    r.probes['layer.' + layer] += 1
    if layer == 'http':
        layer_http(tape, r)
    elif layer == 'web':
        layer_web(tape, r)
    elif layer == 'robots':
        layer_web(tape, r, robots=True)
    elif layer == 'ftp':
        layer_ftp(tape, r)
    else:
        layer_crawl(tape, r, tier)
    seen = set()
    uniq = []
    for v in r.violations:
        if (v.prop, v.cls, v.sig) not in seen:
            seen.add((v.prop, v.cls, v.sig))
            uniq.append(v)
    r.violations = uniq
    return r
