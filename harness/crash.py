"""C03 - a killed crawl resumes from its database without loss or refetch (DESIGN section 4, C03).

Run 1 executes in a FORKED CHILD and dies with os._exit(137) at a simulator-chosen, exactly repeatable
instant: before/after each SQL statement, before/after each commit, on receipt of each request by a
server, on delivery of each response segment. Durable state = the files the child left on tmpfs. The
parent inspects a COPY of the database, then run 2 (another forked child, same command line) resumes.
quick tier: a sample of kill instants per workload; thorough tier: EVERY kill instant of the workload.

Real: the whole application (see harness.crawl), SQLite WAL database on tmpfs, real process death
Stub: transport, DNS, clock, origin servers
"""
import json
import os
import shutil
import sqlite3
import tempfile
import traceback

from simlib.runner import Result
from simlib.tape import Tape
from refs import site as refsite
from refs.site import canon
from harness import crawl
from harness import ftpcrawl

import sqlalchemy
import sqlalchemy.event
import sqlalchemy.engine
import sqlalchemy.orm

P = 'C03'
BUDGETS = {'C03': (240, 2400, 2)}
LEVELS = {'C03': 'fault_enumeration'}
SHRINK = {'C03': (60, 25), 'C02': (60, 40)}
WALL_LIMIT = {('C03', 'quick'): 240, ('C03', 'thorough'): 3000, ('C02', 'quick'): 240, ('C02', 'thorough'): 240}      # one re-execution = ~20 forked crawls
PROBES = {'C03': ['kill_points_total', 'kill_at_sql', 'kill_at_commit', 'kill_at_request', 'kill_at_delivery', 'kill_before_first_request',
                  'kill_with_in_progress_rows', 'kill_between_status_and_children', 'second_kill', 'resumed_runs', 'concurrency>1',
                  'workload_fully_enumerated', 'run2_refetch_of_in_progress', 'database_uri', 'sitemaps', 'sitemaps_skipped_start', 'ftp_crawl', 'transient_errors', 'kill_with_error_rows', 'many_input_urls', 'input_file_option', 'kill_during_input_import', 'small_tries', 'depth_limited']}
INFO = {'C03': {
    'rule': 'workload = generated site graph (as C01, depth unlimited) x concurrency 1..3 x schedule; per workload the kill instants '
            '(every SQL statement boundary, every commit boundary, every server request, every delivered segment) are enumerated '
            '(thorough: all of them; quick: a drawn sample incl. instants right after a status commit); one evaluation = one workload; '
            'kill experiments are counted in probes.kill_points_total; non-trivial iff the crawl has >= 4 URLs and >= 1 kill landed '
            'while rows were in progress; distinct by workload digest',
    'interleaving_measure': 'distinct digests of the (kind, actor) event sequence of the uninterrupted run + kill position',
    'components': {'real': ['whole wpull application (Builder, pipelines, SQLiteURLTable WAL on tmpfs, processors, scraper, HTTP client)',
                            'real process kill: fork + os._exit(137) without finally/atexit/flush', 'database inspected on a copy with sqlite3'],
                   'stub': ['transport', 'DNS', 'clock', 'origin servers (request log appended with unbuffered O_APPEND writes so it survives the kill)']},
    'assumptions': ['process kill, not power loss: everything written to the OS survives (synchronous=NORMAL is not judged against power loss)',
                    'kill instants are between SQL statements / commits, not inside SQLite page writes (SQLite atomic commit is trusted)',
                    'requests made as redirect follow-ups inside an item are not table rows and are exempt from the no-refetch clause'],
}}

_state = {'count': 0, 'kill_at': None, 'kinds': None, 'log_fd': None}


def _instant(kind):
    st = _state
    st['count'] += 1
    if st['kinds'] is not None:
        st['kinds'].append(kind)
    if st['kill_at'] is not None and st['count'] == st['kill_at']:
        os._exit(137)


def _before_exec(conn, cursor, statement, parameters, context, executemany):
    _instant('sql')


def _after_exec(conn, cursor, statement, parameters, context, executemany):
    _instant('sql')


def _commit(conn):
    _instant('commit')


def _after_commit(session):
    _instant('commit')


_listeners_installed = [False]


def install_listeners():
    if _listeners_installed[0]:
        return
    _listeners_installed[0] = True
    sqlalchemy.event.listen(sqlalchemy.engine.Engine, 'before_cursor_execute', _before_exec)
    sqlalchemy.event.listen(sqlalchemy.engine.Engine, 'after_cursor_execute', _after_exec)
    sqlalchemy.event.listen(sqlalchemy.engine.Engine, 'commit', _commit)
    sqlalchemy.event.listen(sqlalchemy.orm.Session, 'after_commit', _after_commit)


def child_run(tape_values, site, argv, concurrency, sandbox, logpath, resultpath, kill_at, count_only=False, max_callbacks=400_000):
    """Runs in the forked child. Never returns."""
    code = 3
    try:
        import faulthandler
        faulthandler.dump_traceback_later(int(os.environ.get('VERIF_CHILD_WALL_S', '120')), exit=True)   # a stuck child never blocks the parent for ever
        install_listeners()
        _state['count'] = 0
        _state['kill_at'] = kill_at
        _state['kinds'] = [] if count_only else None
        fd = os.open(logpath, os.O_WRONLY | os.O_CREAT | os.O_APPEND, 0o600)
        r = Result()
        tape = Tape(values=tape_values)

        def setup(h, server, net):
            def on_request(entry):
                rec = entry['rec']
                line = json.dumps({'url': entry['url'], 't': entry['t'], 'item': rec and rec['url'], 'rec': rec and {
                    k: rec[k] for k in ('url', 'level', 'inline_level', 'parent_url', 'root_url', 'try_count')}}) + '\n'
                os.write(fd, line.encode())
                _instant('request')
            h.on_request = on_request
            net.on_delivery = lambda conn, payload: _instant('delivery')
            if getattr(site, 'ftp_tree', None) is not None:
                ftpcrawl.FtpTreeServer(h, net, site.ftp_tree, mlsd=site.ftp_mlsd)
            for res, n, kind in getattr(site, 'flaky', []):
                st = {'left': n}

                def beh(conn, entry, rs, st=st, kind=kind):
                    if st['left'] > 0:          # (counted per process: after a kill the server is as moody as before)
                        st['left'] -= 1
                        if kind == '503':
                            server.send(conn, 503, 'Busy', [('Content-Type', 'text/plain')], b'busy')
                        else:
                            conn.reset()
                    else:
                        server.respond_resource(conn, rs, entry)
                server.behaviour[(res.origin.key(), res.target)] = beh
        out = crawl.run_app(tape, r, site, argv, concurrency, sandbox, setup=setup, max_callbacks=max_callbacks)
        res = {'exit': out['exit'], 'hang': out.get('hang'), 'exception': out.get('exception'), 'crashed': out['crashed'],
               'instants': _state['count'], 'kinds': _state['kinds'], 'sim_time': r.sim_time, 'callbacks': r.callbacks}
        with open(resultpath, 'w') as f:
            json.dump(res, f)
        code = 0
    except BaseException:
        try:
            with open(resultpath, 'w') as f:
                json.dump({'harness_exception': traceback.format_exc()[-3000:]}, f)
        except BaseException:
            pass
        code = 4
    finally:
        os._exit(code)


def fork_run(*args, **kw):
    pid = os.fork()
    if pid == 0:
        child_run(*args, **kw)
    _, status = os.waitpid(pid, 0)
    return os.waitstatus_to_exitcode(status)


def read_log(path):
    out = []
    if os.path.exists(path):
        with open(path) as f:
            for line in f:
                line = line.strip()
                if line:
                    try:
                        out.append(json.loads(line))
                    except ValueError:
                        pass
    return out


def snapshot_db(dbpath, dest):
    """Copy the database files as the kill left them and read the copy (WAL recovery happens on the copy)."""
    os.makedirs(dest, exist_ok=True)
    for suffix in ('', '-wal', '-shm', '-journal'):
        if os.path.exists(dbpath + suffix):
            shutil.copy(dbpath + suffix, os.path.join(dest, os.path.basename(dbpath) + suffix))
    return crawl.read_rows(os.path.join(dest, os.path.basename(dbpath)))


class _Origin:
    def __init__(self, host):
        self.host = host


class _Start:
    def __init__(self, url, host):
        self.url = url
        self.origin = _Origin(host)


def run(tape, prop, tier):
    r = Result()
    base = tempfile.mkdtemp(prefix='wv-crash-%d-' % os.getpid(), dir='/dev/shm')
    cwd = os.getcwd()
    try:
        # ---- workload
        opts = {'robots': False, 'recursive': True, 'level': 'inf', 'page_requisites': tape.chance(1, 2, 'opt.p'),
                'span_hosts': False}
        if tape.chance(1, 4, 'opt.database_uri'):
            opts['database_uri'] = True
            r.probes['database_uri'] += 1
        ftp = prop == 'C03' and tape.chance(1, 5, 'variant.ftp')
        if ftp:
            # a recursive FTP crawl of a generated directory tree (listings are the pages, entries the links)
            r.probes['ftp_crawl'] += 1
            site = refsite.Site()
            site.ftp_tree = ftpcrawl.gen_tree(tape)
            site.ftp_mlsd = tape.chance(2, 3, 'ftp.mlsd')
            starts = [_Start('ftp://ftp.test/', 'ftp.test')]
            pages, assets, redirects = [], [], []
        else:
            nhosts = tape.choice((1, 2), 'site.nhosts')
            site, starts, pages, assets, redirects = refsite.gen_site(tape, nhosts=nhosts, npages=tape.between(3, 7, 'site.npages'),
                                                                     with_redirects=tape.chance(1, 3, 'site.redirects'))
        level_limited = False
        if prop == 'C03' and not ftp and tape.chance(1, 5, 'opt.level'):
            # a depth limit: after a resume the URLs must be found at the same depths as in an uninterrupted crawl (one
            # worker: with several, the depth a URL is first found at depends on the schedule anyway, C01-K2)
            opts['level'] = tape.choice((1, 2, 3), 'opt.level.n')
            level_limited = True
            r.probes['depth_limited'] += 1
        site.flaky = []
        if prop == 'C03' and tape.chance(1, 4, 'opt.tries'):
            # a small --tries: a try that was started but never finished (the process died) must not be counted
            opts['tries'] = tape.choice((1, 2), 'opt.tries.n')
            r.probes['small_tries'] += 1
        if prop == 'C03' and not ftp and opts.get('tries') is None and tape.chance(1, 3, 'site.flaky'):
            # transient failures: the URL is recorded 'error' and retried after the other URLs - or after a kill and rerun
            cand = [p for p in pages if p.origin.key() == starts[0].origin.key()]
            for _ in range(tape.between(1, 2, 'site.flaky.n')):
                f = cand[tape.draw(len(cand), 'site.flaky.which')]
                site.flaky.append((f, tape.choice((1, 1, 2), 'site.flaky.times'), tape.choice(('503', 'reset'), 'site.flaky.kind')))
            r.probes['transient_errors'] += 1
        sitemaps = prop == 'C03' and not ftp and tape.chance(1, 4, 'opt.sitemaps')
        if sitemaps:
            # --sitemaps: every start URL queues /robots.txt and /sitemap.xml of its host BEFORE it is fetched; pages that
            # are reachable only through the sitemap, and a start URL that ends 'skipped' (it redirects to a rejected
            # target) while it already carries those two children
            r.probes['sitemaps'] += 1
            opts['sitemaps'] = True
            opts['reject_regex'] = '/private/'
            main = starts[0].origin
            orphans = []
            for i in range(tape.between(1, 2, 'sm.orphans')):
                o = site.add(main, '/orphan/o%d.html' % i, 'page')
                dst = pages[tape.draw(len(pages), 'sm.orphan.link')]
                o.links.append((dst, dst.url))
                orphans.append(o)
            rb = site.add(main, '/robots.txt', 'robots')
            rb.body = ('User-agent: *\nDisallow:\nSitemap: %s/sitemap.xml\n' % main.prefix).encode()
            rb.content_type = 'text/plain'
            sm = site.add(main, '/sitemap.xml', 'sitemap')
            locs = [o.url for o in orphans] + [pages[tape.draw(len(pages), 'sm.loc')].url]
            sm.body = ('<?xml version="1.0" encoding="UTF-8"?>\n<urlset xmlns="http://www.sitemaps.org/schemas/sitemap/0.9">\n%s</urlset>\n'
                       % ''.join('<url><loc>%s</loc></url>\n' % u for u in locs)).encode()
            sm.content_type = 'application/xml'
            if tape.chance(2, 3, 'sm.skipped_start'):
                priv = site.add(main, '/private/home', 'page')
                go = site.add(main, '/go', 'redirect')
                go.redirect_to = priv
                go.redirect_spelling = priv.url
                go.redirect_code = tape.choice((302, 301, 307), 'sm.go.code')
                if tape.chance(1, 2, 'sm.only_start'):
                    starts = [go]          # then everything hangs on the children of the skipped item
                else:
                    starts = [go] + list(starts) if tape.chance(1, 2, 'sm.go.first') else list(starts) + [go]
                r.probes['sitemaps_skipped_start'] += 1
        argv_urls = None
        if prop == 'C03' and not ftp and tape.chance(1, 8, 'many_inputs'):
            # more than 1000 input URLs: they are imported in batches of 1000, one transaction each (the first 1000 here are
            # one URL repeated - legal, and cheap to crawl); a kill can land between two batches
            extra_starts = [p for p in pages if p not in starts and p.origin.key() == starts[0].origin.key()][:tape.between(1, 3, 'many_inputs.extra')]
            if extra_starts:
                pad = tape.choice((1000, 999, 1001, 2000), 'many_inputs.pad')
                argv_urls = [starts[0].url] * pad + [p.url for p in extra_starts]
                starts = list(starts) + extra_starts
                r.probes['many_input_urls'] += 1
        if argv_urls is None:
            argv_urls = [s.url for s in starts]
        site.finalize()
        concurrency = tape.choice((1, 2, 3), 'concurrency')
        if level_limited:
            concurrency = 1
        if concurrency > 1:
            r.probes['concurrency>1'] += 1
        sched_seed = tape.draw(1 << 20, 'sched.seed')
        sched2_seed = tape.draw(1 << 20, 'sched2.seed')
        ksel = [tape.draw(1 << 16, 'kill.sel') for _ in range(8)]
        ksel_commit = [tape.draw(1 << 16, 'kill.sel.commit') for _ in range(8)]
        second_kill = tape.chance(1, 4, 'second_kill')
        own = sorted({s.origin.host for s in starts})
        if ftp:
            # reference: every directory and file of the tree, each the child of its directory
            ref_rows, expected = {}, []
            for path in site.ftp_tree:
                u = 'ftp://ftp.test' + path
                par = None if path == '/' else 'ftp://ftp.test' + (path.rstrip('/').rsplit('/', 1)[0] + '/')
                ref_rows[u] = {'parent': {'url': par} if par else None}
                expected.append(u)
        elif sitemaps:
            ref_rows, expected = {}, []      # no sitemap model: the uninterrupted run of the same command is the reference (c')
        else:
            ref_rows, expected = crawl.reference_crawl(site, starts, opts, own)

        def sandbox_for(name):
            d = os.path.join(base, name)
            os.makedirs(d, exist_ok=True)
            return d

        n_inputs = len(argv_urls)
        if prop == 'C03' and not ftp and tape.chance(1, 5, 'input_file'):
            # the same start URLs given through --input-file (another start-up path: the file is read and imported again by the rerun)
            inputs = os.path.join(base, 'inputs.txt')
            with open(inputs, 'w') as fh:
                fh.write(''.join(u + '\n' for u in argv_urls))
            opts = dict(opts, input_file=inputs)
            n_inputs = len(argv_urls)
            argv_urls = []
            r.probes['input_file_option'] += 1

        # a schedule = a recorded tape: run 0 generates it (seeded), the killed runs replay it
        sb0 = sandbox_for('run0')
        db0 = os.path.join(sb0, 'db.sqlite')
        argv0 = crawl.argv_for(opts, argv_urls, db0)
        # run 0: uninterrupted, counts the instants; it uses a generated tape whose values we record through a file
        sched_tape = Tape(sched_seed)
        os.chdir(sb0)
        # pre-generate enough schedule choices: run the app once in a child in generate mode is not possible across
        # processes, so draw a long random tape up-front and replay it everywhere (past the end -> 0)
        values = [sched_tape._rng.randrange(1 << 16) for _ in range(6000)]
        code = fork_run(values, site, argv0, concurrency, sb0, os.path.join(sb0, 'req.log'), os.path.join(sb0, 'result.json'), None, count_only=True)
        res0 = _load(os.path.join(sb0, 'result.json'))
        if code != 0 or res0 is None or res0.get('harness_exception'):
            raise RuntimeError('uninterrupted run failed in the harness: code %r %r' % (code, res0))
        ok_exits = (0, 4, 8) if site.flaky else (0,)       # transient 5xx / resets are counted in the exit status
        if res0.get('hang') or res0.get('exception') or res0.get('exit') not in ok_exits:
            r.violate(P, 'uninterrupted-run-failed', 'run0', 'exit %r hang %r exception %r' % (res0.get('exit'), res0.get('hang'), (res0.get('exception') or '')[-400:]))
            return r
        N = res0['instants']
        kinds = res0['kinds']
        r.sim_time += res0.get('sim_time', 0)
        r.callbacks += res0.get('callbacks', 0)
        req0 = read_log(os.path.join(sb0, 'req.log'))
        r.events = [(k, 0) for k in kinds[:2000]]
        first_req = kinds.index('request') + 1 if 'request' in kinds else N
        # ---- choose kill positions
        if prop == 'C02':
            positions = sorted({first_req + (ksel[5] % max(1, N - first_req)), 1 + (ksel[0] % N)})
        elif tier == 'thorough':
            positions = list(range(1, N + 1))
            r.probes['workload_fully_enumerated'] += 1
        else:
            # most loss windows are "a transaction is committed, the next one is not": besides a few instants anywhere, kill
            # right after (and one instant after) drawn commits
            positions = sorted({1 + (x % N) for x in ksel[:3]} | {first_req + (ksel[5] % max(1, N - first_req))} |
                               {min(N, _after_nth_commit(kinds, ksel[6]))} | {min(N, _after_nth_commit(kinds, ksel[7]) + 1)} |
                               {min(N, _after_nth_commit(kinds, x) + (x >> 8) % 2) for x in ksel_commit})
        if n_inputs > 100 and tier != 'thorough' and prop == 'C03':
            # the import of the input URLs happens before the first request: put kills at its commit boundaries
            early = [i + 1 for i, kk in enumerate(kinds[:first_req]) if kk == 'commit']
            positions = sorted(set(positions) | set(early[-8:]) | {min(N, x + 1) for x in early[-8:]})
            r.probes['kill_during_input_import'] += len([x for x in positions if x < first_req])
        workload = {'options': {k: v for k, v in opts.items() if v not in (None, False, ())}, 'starts': [s.url for s in starts], 'input_urls': n_inputs,
                    'concurrency': concurrency, 'instants': N, 'positions': positions if tier != 'thorough' else 'all',
                    'site': [(x.kind, x.url, [d.url for d, _ in x.links], [d.url for d, _, _ in x.inlines]) for x in site.order]}
        if ftp:
            workload['ftp_tree'] = sorted((p, v if isinstance(v, list) else len(v)) for p, v in site.ftp_tree.items())
            workload['ftp_mlsd'] = site.ftp_mlsd
        landed_in_progress = False
        for k in positions:
            sb = sandbox_for('k%d' % k)
            db = os.path.join(sb, 'db.sqlite')
            argv = crawl.argv_for(opts, argv_urls, db)
            os.chdir(sb)
            code = fork_run(values, site, argv, concurrency, sb, os.path.join(sb, 'req1.log'), os.path.join(sb, 'result1.json'), k)
            kind = kinds[k - 1] if k - 1 < len(kinds) else 'end'
            r.probes['kill_points_total'] += 1
            r.probes['kill_at_' + kind] += 1
            r.faults['kill.' + kind] += 1
            if k < first_req:
                r.probes['kill_before_first_request'] += 1
            if code != 137:
                res1 = _load(os.path.join(sb, 'result1.json'))
                if code == 0 and res1 and res1.get('instants', 0) < k:
                    continue        # the run finished before reaching instant k (schedules are deterministic, so only at the tail)
                raise RuntimeError('kill run did not die at instant %d: exit %r result %r' % (k, code, res1))
            rows1 = snapshot_db(db, os.path.join(sb, 'copy1'))
            req1 = read_log(os.path.join(sb, 'req1.log'))
            done1 = {canon(x['url']) for x in rows1 if x['status'] in ('done', 'skipped')}
            inprog1 = [x for x in rows1 if x['status'] == 'in_progress']
            if any(x['status'] == 'error' for x in rows1):
                r.probes['kill_with_error_rows'] += 1
            if inprog1:
                r.probes['kill_with_in_progress_rows'] += 1
                landed_in_progress = True
            # ---- run 2 (resume), optionally killed again
            logs = [req1]
            k2 = None
            rows_before = rows1
            final_rows = None
            resumed_ok = True
            for attempt in range(2):
                values2 = [Tape(sched2_seed + attempt)._rng.randrange(1 << 16) for _ in range(6000)]
                kill2 = None
                if attempt == 0 and second_kill:
                    kill2 = 1 + (ksel[0] % max(1, N // 2))
                    r.probes['second_kill'] += 1
                lp = os.path.join(sb, 'req%d.log' % (attempt + 2))
                rp = os.path.join(sb, 'result%d.json' % (attempt + 2))
                code2 = fork_run(values2, site, argv, concurrency, sb, lp, rp, kill2, max_callbacks=max(20000, 25 * res0.get('callbacks', 1000)))
                r.probes['resumed_runs'] += 1
                logs.append(read_log(lp))
                if code2 == 137:
                    rows_mid = snapshot_db(db, os.path.join(sb, 'copy%d' % (attempt + 2)))
                    done1 |= {canon(x['url']) for x in rows_mid if x['status'] in ('done', 'skipped')}
                    continue
                res2 = _load(rp)
                if res2 is None or res2.get('harness_exception'):
                    raise RuntimeError('resumed run failed in the harness: %r' % (res2,))
                where = 'kill at instant %d/%d (%s)' % (k, N, kind)
                if res2.get('hang'):
                    r.violate(P, 'resume-hangs', kind, '%s: the resumed run does not terminate: %s' % (where, res2['hang'][:600]))
                    resumed_ok = False
                elif res2.get('exception') or res2.get('crashed') or res2.get('exit') not in ok_exits:
                    r.violate(P, 'resume-fails', kind, '%s: the resumed run ended with exit %r crashed %r %s'
                              % (where, res2.get('exit'), res2.get('crashed'), (res2.get('exception') or '')[-300:]))
                    resumed_ok = False
                final_rows = crawl.read_rows(db)
                break
            if not resumed_ok or final_rows is None:
                continue
            where = 'kill at instant %d/%d (%s)' % (k, N, kind)
            # (a) nothing recorded done before the kill is requested again (first request of an item only)
            req_after = [e for lg in logs[1:] for e in lg]
            for e in req_after:
                if e['item'] and canon(e['url']) == canon(e['item']) and canon(e['url']) in {canon(x['url']) for x in rows1 if x['status'] in ('done', 'skipped')}:
                    r.violate(P, 'refetch-of-done-url', kind, '%s: %s was recorded %s before the kill but requested again after the resume'
                              % (where, e['url'], [x['status'] for x in rows1 if canon(x['url']) == canon(e['url'])]))
            # (b) no row lost, every row final
            final_by = {canon(x['url']): x for x in final_rows}
            for x in rows1:
                if canon(x['url']) not in final_by:
                    r.violate(P, 'row-lost', kind, '%s: row %s existed after the kill but not after the resume' % (where, x['url']))
            for x in final_rows:
                if x['status'] not in ('done', 'skipped'):
                    r.violate(P, 'row-stuck', '%s:%s' % (x['status'], kind), '%s: row %s is %s after the resumed run completed' % (where, x['url'], x['status']))
            # (c) the runs together request every URL an uninterrupted crawl requests
            all_req = {canon(e['url']) for lg in logs for e in lg}
            for u in expected:
                if u not in all_req:
                    parent_status = None
                    rec = ref_rows[u]
                    if rec['parent']:
                        prow = [x for x in rows1 if canon(x['url']) == canon(rec['parent']['url'])]
                        parent_status = prow[0]['status'] if prow else None
                    has_row1 = any(canon(x['url']) == u for x in rows1)
                    sig = kind
                    if parent_status in ('done', 'skipped') and not has_row1:
                        sig = 'parent-done-children-not-stored:' + kind
                        r.probes['kill_between_status_and_children'] += 1
                    r.violate(P, 'url-lost', sig, '%s: %s is requested by an uninterrupted crawl but by neither run; at the kill its parent %s was %r and it had %s'
                              % (where, u, rec['parent'] and rec['parent']['url'], parent_status, 'a row' if has_row1 else 'no row'))
            # (c') ... literally: whatever run 0 (the same command, never killed) requested is requested by the runs together
            for u in sorted({canon(e['url']) for e in req0}):
                if u not in all_req:
                    r.violate(P, 'url-lost', 'vs-uninterrupted-run:' + kind, '%s: %s was requested by the uninterrupted run of the same command but by neither run; rows after the kill: %r'
                              % (where, u, [(x['url'], x['status']) for x in rows1][:12]))
            # C02 on the resumed history: scope must not widen after a resume
            fake_out = {'server': _FakeServer(req_after if not ftp else [])}
            crawl.judge_c02(r, site, starts, opts, fake_out, final_rows, own_hosts=own, phase=' [resumed run after %s]' % where)
            # refetch of a URL that was in progress at the kill is allowed (and expected): count it
            if any(canon(e['url']) in {canon(x['url']) for x in inprog1} for e in req_after):
                r.probes['run2_refetch_of_in_progress'] += 1
            shutil.rmtree(sb, ignore_errors=True)
        r.workload = workload
        r.nontrivial = (len(expected) >= 4 or sitemaps) and landed_in_progress
        r.sample = {'workload': workload, 'kinds_head': kinds[:60], 'violations': [v.cls + ':' + v.sig for v in r.violations][:6]}
        r.log('instants=%d positions=%r' % (N, positions if len(positions) < 40 else len(positions)))
    finally:
        os.chdir(cwd)
        if not os.environ.get('VERIF_KEEP'):
            shutil.rmtree(base, ignore_errors=True)
    seen = set()
    uniq = []
    for v in r.violations:
        if (v.prop, v.cls, v.sig) not in seen:
            seen.add((v.prop, v.cls, v.sig))
            uniq.append(v)
    r.violations = uniq
    return r


class _FakeServer:
    def __init__(self, entries):
        self.log = []
        for e in entries:
            rec = e.get('rec')
            self.log.append({'url': e['url'], 'target': '/' + e['url'].split('/', 3)[3] if e['url'].count('/') >= 3 else '/', 'rec': rec})


def _after_nth_commit(kinds, sel):
    idx = [i + 1 for i, k in enumerate(kinds) if k == 'commit']
    if not idx:
        return 1
    return idx[sel % len(idx)]


def _load(path):
    try:
        with open(path) as f:
            return json.load(f)
    except (OSError, ValueError):
        return None
