"""C02, FTP variant: a crawl of a generated FTP tree with recursion / depth options and (optionally) a glob in the start URL.
Every listing and retrieval the server sees must be one the options allow (reference: a breadth-first walk of the tree under
the same options). Real: the whole application incl. the FTP processor and client; stub: transport, the FTP server."""
import fnmatch
import os

from refs import site as refsite
from harness import crawl, ftpcrawl

P = 'C02'


def reference(tree, start_path, glob, recursive, max_level):
    """Set of (verb, path) requests the options allow; verb in {'LIST', 'RETR'}."""
    allowed = set()
    queue = [(start_path, 0, 'glob' if glob else ('dir' if start_path.endswith('/') else 'unknown'))]
    seen = set()
    while queue:
        path, level, kind = queue.pop(0)
        if (path, kind) in seen:
            continue
        seen.add((path, kind))
        if level > 0 and not recursive:
            continue
        if max_level != 'inf' and level > max_level:
            continue
        if kind == 'glob':
            d = path.rsplit('/', 1)[0] + '/'
            pat = path.rsplit('/', 1)[1]
            allowed.add(('LIST', d))
            for name, k in tree.get(d, []):
                if not fnmatch.fnmatchcase(name, pat):
                    continue
                if k == 'dir':
                    queue.append((d + name + '/', level + 1, 'dir'))
                else:
                    queue.append((d + name, level, 'file'))      # a matched file keeps the level of the glob
        elif kind == 'dir':
            if isinstance(tree.get(path), list):
                allowed.add(('LIST', path))
                for name, k in tree[path]:
                    queue.append((path + name + ('/' if k == 'dir' else ''), level + 1, 'dir' if k == 'dir' else 'file'))
            else:
                allowed.add(('LIST', path))       # asking is allowed; the server says no
        else:
            if kind == 'unknown':
                allowed.add(('LIST', path.rsplit('/', 1)[0] + '/'))       # the processor looks the name up in its directory first
                if isinstance(tree.get(path + '/'), list):
                    queue.append((path + '/', level, 'dir'))
                    continue
            allowed.add(('RETR', path))
    return allowed


def run(tape, r, tier, sandbox):
    tree = ftpcrawl.gen_tree(tape)
    dirs = sorted(p for p, v in tree.items() if isinstance(v, list))
    files = sorted(p for p, v in tree.items() if isinstance(v, bytes))
    recursive = tape.chance(1, 2, 'ftp.recursive')
    max_level = tape.choice((5, 1, 2, 'inf'), 'ftp.level')
    k = tape.draw(4, 'ftp.start')
    glob = False
    if k == 0:
        start = '/'
    elif k == 1:
        start = dirs[tape.draw(len(dirs), 'ftp.start.dir')]
    elif k == 2 and files:
        start = files[tape.draw(len(files), 'ftp.start.file')]
    else:
        d = dirs[tape.draw(len(dirs), 'ftp.start.globdir')]
        start = d + tape.choice(('*', 'd*', 'f*', '*.txt', 'f*.*'), 'ftp.glob')
        glob = True
        r.probes['ftp_glob'] += 1
    r.probes['ftp_scope_variant'] += 1
    opts = {'robots': False, 'recursive': recursive, 'level': max_level}
    site = refsite.Site()
    site.finalize()
    dbpath = os.path.join(sandbox, 'db.sqlite')
    argv = crawl.argv_for(opts, ['ftp://ftp.test' + start], dbpath)
    concurrency = tape.choice((1, 2, 3), 'concurrency')
    servers = []

    def setup(h, server, net):
        servers.append(ftpcrawl.FtpTreeServer(h, net, tree, mlsd=tape.chance(1, 2, 'ftp.mlsd')))
    out = crawl.run_app(tape, r, site, argv, concurrency, sandbox, setup=setup)
    if out.get('hang'):
        r.violate(P, 'no-termination', 'ftp-hang', out['hang'][:900])
    if out.get('exception'):
        r.violate(P, 'crash', 'exception-escaped-app-run', out['exception'][-900:])
    allowed = reference(tree, start, glob, recursive, max_level)
    seen = []
    for e in servers[0].log:
        verb = 'RETR' if e['verb'] == 'RETR' else 'LIST'
        path = e['target']
        seen.append((verb, path))
        if (verb, path) not in allowed:
            rec = e['rec'] or {}
            r.violate(P, 'out-of-scope-request', 'ftp:%s%s' % (verb.lower(), ':glob' if glob else ''),
                      '%s %s sent (item %s, level %r) although the options do not allow it: start ftp://ftp.test%s recursive=%r level=%r; allowed %r'
                      % (e['verb'], path, rec.get('url'), rec.get('level'), start, recursive, max_level, sorted(allowed)[:12]))
    if any(v == 'RETR' for v, _ in seen):
        r.probes['ftp_file_fetched'] += 1
    r.workload = ('ftp-scope', start, glob, recursive, max_level, concurrency, sorted((p, v if isinstance(v, list) else len(v)) for p, v in tree.items()))
    r.nontrivial = len(seen) >= 2
    r.sample = {'variant': 'ftp', 'start': start, 'glob': glob, 'recursive': recursive, 'level': max_level, 'requests': seen[:30],
                'tree': sorted((p, v if isinstance(v, list) else len(v)) for p, v in tree.items()), 'exit': out['exit']}
    for v, p in seen:
        r.log('%s %s' % (v, p))
    return r
