"""Choice tape: the single source of nondeterminism of a simulated run (DESIGN 2.1).

generate mode : values come from random.Random(seed) and are recorded
replay mode   : values are read from a recorded list; past the end -> 0; out-of-range -> mod n
Generators are written so that 0 is the simplest choice.
"""
import hashlib
import random


class Tape:
    __slots__ = ('seed', 'values', 'pos', '_rng', 'replay', 'labels', 'keep_labels')

    def __init__(self, seed=None, values=None, keep_labels=False):
        self.seed = seed
        self.replay = values is not None
        self.values = list(values) if values is not None else []
        self.pos = 0
        self._rng = random.Random(seed) if values is None else None
        self.keep_labels = keep_labels
        self.labels = []

    def draw(self, n, label=None):
        """int in [0, n)."""
        if n <= 1:
            return 0
        if self.replay:
            if self.pos < len(self.values):
                v = self.values[self.pos] % n
            else:
                v = 0
            self.pos += 1
        else:
            v = self._rng.randrange(n)
            self.values.append(v)
            self.pos += 1
        if self.keep_labels:
            self.labels.append((label, n, v))
        return v

    # -- helpers (all defined through draw) -------------------------------------------
    def chance(self, num, den, label=None):
        """True with probability num/den. 0 on the tape -> False."""
        if num <= 0:
            return False
        v = self.draw(den, label)
        return v >= den - num

    def choice(self, seq, label=None):
        return seq[self.draw(len(seq), label)]

    def weighted(self, pairs, label=None):
        """pairs: [(weight, value), ...]; first entry is the 'simplest'."""
        total = sum(w for w, _ in pairs)
        v = self.draw(total, label)
        for w, val in pairs:
            if v < w:
                return val
            v -= w
        return pairs[-1][1]

    def between(self, lo, hi, label=None):
        """int in [lo, hi] inclusive; lo is simplest."""
        return lo + self.draw(hi - lo + 1, label)

    def subrng(self, label=None):
        """A PRNG for bulk data (payload bytes): one draw on the tape."""
        return random.Random(self.draw(1 << 20, label))

    def shuffle_order(self, n, label=None):
        """Return a permutation of range(n); all-zero draws -> identity."""
        idx = list(range(n))
        out = []
        while idx:
            out.append(idx.pop(self.draw(len(idx), label)))
        return out

    def used(self):
        return self.values[:self.pos] if self.replay else list(self.values)


def derive_seed(base_seed, index, salt=''):
    h = hashlib.sha256(('%s:%s:%s' % (base_seed, index, salt)).encode()).digest()
    return int.from_bytes(h[:8], 'big')
