"""Simulated TCP + DNS (DESIGN 2.2).

The client side keeps asyncio's real StreamReader / StreamReaderProtocol / StreamWriter;
only the transport is simulated. Bytes are delivered in order per direction; *when* and in
*what pieces* is decided by the tape.

Server side ("peer") API: a listener is a callable  factory(conn) -> handler  where handler
has  on_data(conn, data)  and  on_eof(conn). The handler answers with conn.send(...),
conn.close() (FIN after queued data), conn.reset() (RST).
"""
import asyncio
import collections
import errno
import socket

LAT = (0.0, 0.001, 0.01, 0.1, 0.5, 2.0)      # latency palette (virtual seconds); 0 first
GAP = (0.001, 0.0, 0.01, 0.2)                # gap between pieces; first = separate reads


class FakeSSLObject:
    def getpeercert(self, binary_form=False):
        return {}

    def cipher(self):
        return ('SIM', 'TLSv1.2', 128)


class FakeSocket:
    """Returned for get_extra_info('socket'); carries the SimConn for start_tls upgrades."""

    def __init__(self, conn):
        self.conn = conn
        self.family = socket.AF_INET
        self.type = socket.SOCK_STREAM

    def getpeername(self):
        return self.conn.remote

    def getsockname(self):
        return ('127.0.0.1', 40000 + self.conn.id)

    def getpeercert(self, binary_form=False):
        return {}

    def fileno(self):
        return -1

    def setsockopt(self, *a):
        pass


class SimConn(asyncio.Transport):
    """One TCP connection: the client's transport and the server's handle in one object."""

    def __init__(self, net, cid, remote, ssl=False):
        super().__init__()
        self.net = net
        self.loop = net.loop
        self.id = cid
        self.remote = remote
        self.ssl = bool(ssl)
        self.protocol = None
        self.handler = None
        self.c2s = bytearray()          # everything the client wrote
        self.s2c = bytearray()          # everything the server queued for sending
        self.s2c_delivered = 0
        self._closing = False           # client called close()/abort()
        self._lost = False              # connection_lost delivered to protocol
        self._paused = False
        self._q = collections.deque()   # (time, kind, payload) towards the client
        self._cursor = 0.0
        self._pump_handle = None
        self._srv_q = collections.deque()   # towards the server
        self._srv_cursor = 0.0
        self._srv_pump = None
        self.server_closed = False      # server sent FIN / RST
        self.client_eof_seen = False
        self.seg_mode = 0
        self.c2s_lat = 0.0
        self.extra = {}
        self._sock = FakeSocket(self)
        self._sslobj = FakeSSLObject()
        self.delivery_offsets = []      # cumulative s2c offsets at the end of each delivery to the client
        self.writes = []                # list of byte strings as written by the client
        self.meta = {}

    # ------------------------------------------------------------------ Transport API (client)
    def get_extra_info(self, name, default=None):
        if name == 'socket':
            return self._sock
        if name == 'peername':
            return self.remote
        if name == 'sockname':
            return self._sock.getsockname()
        if name == 'ssl_object':
            return self._sslobj if self.ssl else default
        if name == 'sslcontext':
            return default
        return self.extra.get(name, default)

    def is_closing(self):
        return self._closing or self._lost

    def close(self):
        if self._closing or self._lost:
            self._closing = True
            return
        self._closing = True
        self.loop.call_soon(self._call_connection_lost, None)
        self._to_server('eof', None)

    def abort(self):
        self.close()

    def set_protocol(self, protocol):
        self.protocol = protocol

    def get_protocol(self):
        return self.protocol

    def is_reading(self):
        return not self._paused and not self.is_closing()

    def pause_reading(self):
        self._paused = True
        self.net.stats['pause_reading'] += 1

    def resume_reading(self):
        if self._paused:
            self._paused = False
            self._schedule_pump()

    def set_write_buffer_limits(self, high=None, low=None):
        pass

    def get_write_buffer_size(self):
        return 0

    def get_write_buffer_limits(self):
        return (0, 65536)

    def write(self, data):
        if not isinstance(data, (bytes, bytearray, memoryview)):
            raise TypeError('data argument must be a bytes-like object, not %r' % type(data).__name__)
        if self._closing or self._lost:
            self.net.stats['write_after_close'] += 1
            return
        if not data:
            return
        data = bytes(data)
        self.c2s += data
        self.writes.append(data)
        ctx = self.net.write_context() if self.net.write_context else None
        self._to_server('data', (data, ctx))

    def writelines(self, lines):
        self.write(b''.join(lines))

    def can_write_eof(self):
        return True

    def write_eof(self):
        self._to_server('eof', None)

    # ------------------------------------------------------------------ towards the server
    def _to_server(self, kind, payload):
        now = self.loop.time()
        t = max(now + self.c2s_lat, self._srv_cursor)
        self._srv_cursor = t
        self._srv_q.append((t, kind, payload))
        if self._srv_pump is None:
            self._srv_pump = self.loop.call_at(self._srv_q[0][0], self._pump_server)

    def _pump_server(self):
        self._srv_pump = None
        now = self.loop.time() + 1e-12
        while self._srv_q and self._srv_q[0][0] <= now:
            _, kind, payload = self._srv_q.popleft()
            h = self.handler
            if h is None:
                continue
            if kind == 'data':
                data, ctx = payload
                self.net.current_ctx = ctx
                try:
                    h.on_data(self, data)
                except BaseException as e:
                    # an exception inside a simulated PEER is a bug of the harness, never behaviour of the code under test: it
                    # must not vanish in the event loop's exception handler (a peer that silently stops answering looks like a
                    # legitimate network failure and makes every oracle vacuous). SimEnv.run re-raises it.
                    if self.net.peer_exception is None:
                        import traceback
                        self.net.peer_exception = ''.join(traceback.format_exception(type(e), e, e.__traceback__))[-3000:]
                    raise
                finally:
                    self.net.current_ctx = None
            elif kind == 'eof':
                if not self.client_eof_seen:
                    self.client_eof_seen = True
                    try:
                        h.on_eof(self)
                    except BaseException as e:
                        if self.net.peer_exception is None:
                            import traceback
                            self.net.peer_exception = ''.join(traceback.format_exception(type(e), e, e.__traceback__))[-3000:]
                        raise
        if self._srv_q:
            self._srv_pump = self.loop.call_at(self._srv_q[0][0], self._pump_server)

    # ------------------------------------------------------------------ server-side API
    def send(self, data, delay=None, cuts=None, mode=None, gap=None):
        """Queue bytes for the client. delay: before the first piece (None -> tape).
        cuts: offsets of interest inside data (grammar boundaries)."""
        if self.server_closed or not data:
            return
        tape = self.net.tape
        self.s2c += data
        if delay is None:
            delay = LAT[tape.draw(len(LAT), 'lat')] if self.net.vary_latency else 0.0
        pieces = self._segment(bytes(data), cuts, self.seg_mode if mode is None else mode)
        now = self.loop.time()
        t = max(now, self._cursor) + delay
        first = True
        for p in pieces:
            if not first:
                if gap is not None:
                    g = gap
                else:
                    g = GAP[tape.draw(len(GAP), 'gap')] if self.seg_mode not in (0, 4) else 0.001
                t += g
            first = False
            self._q.append((t, 'data', p))
        self._cursor = t
        self.net.stats['segments'] += len(pieces)
        self._schedule_pump()

    def wait(self, dt):
        """Insert silence before whatever is queued next."""
        self._cursor = max(self.loop.time(), self._cursor) + dt

    def finish(self, delay=0.0):
        """FIN after everything queued so far."""
        if self.server_closed:
            return
        self.server_closed = True
        t = max(self.loop.time(), self._cursor) + delay
        self._cursor = t
        self._q.append((t, 'eof', None))
        self._schedule_pump()

    def reset(self, delay=0.0, drop_queued=False):
        if self.server_closed and not drop_queued:
            return
        self.server_closed = True
        if drop_queued:
            self._q.clear()
            self._cursor = self.loop.time()
        t = max(self.loop.time(), self._cursor) + delay
        self._cursor = t
        self._q.append((t, 'reset', None))
        self.net.stats['fault.reset'] += 1
        self._schedule_pump()

    # ------------------------------------------------------------------ delivery to the client
    def _segment(self, data, cuts, mode):
        n = len(data)
        tape = self.net.tape
        if n <= 1 or mode == 0:
            return [data]
        if mode == 4:       # every byte on its own (small) / 1-byte head then 3-byte pieces
            if n <= 600:
                return [data[i:i + 1] for i in range(n)]
            head = [data[i:i + 1] for i in range(64)]
            rest = data[64:]
            step = 257
            return head + [rest[i:i + step] for i in range(0, len(rest), step)]
        offs = set()
        if mode == 1:       # single bytes at the start, then the rest
            k = 1 + tape.draw(min(n - 1, 8), 'seg.head')
            offs.update(range(1, k + 1))
        elif mode == 2:     # random cuts
            k = 1 + tape.draw(min(n - 1, 6), 'seg.ncuts')
            for _ in range(k):
                offs.add(1 + tape.draw(n - 1, 'seg.cut'))
        elif mode == 3:     # cuts at/around grammar boundaries
            cand = []
            for c in (cuts or ()):
                for d in (0, -1, 1, 2):
                    if 0 < c + d < n:
                        cand.append(c + d)
            if not cand:
                cand = [1, n - 1, n // 2 or 1]
            k = 1 + tape.draw(min(len(cand), 5), 'seg.ncuts')
            for _ in range(k):
                offs.add(cand[tape.draw(len(cand), 'seg.cut')])
        offs = sorted(o for o in offs if 0 < o < n)
        out = []
        prev = 0
        for o in offs:
            out.append(data[prev:o])
            prev = o
        out.append(data[prev:])
        return out

    def _schedule_pump(self):
        if self._pump_handle is None and self._q and not self._paused:
            self._pump_handle = self.loop.call_at(max(self._q[0][0], self.loop.time()), self._pump)

    def _pump(self):
        """Deliver ONE event to the client per event-loop callback, as a selector transport does
        (one recv() result per readiness callback); data pieces due at the same instant are
        coalesced into one recv() result. Anything else that is due runs in a later callback, so the
        reader task gets to run in between exactly as with a real transport."""
        self._pump_handle = None
        if self._lost:
            self._q.clear()
            return
        now = self.loop.time() + 1e-12
        if self._q and self._q[0][0] <= now and not self._paused:
            _, kind, payload = self._q.popleft()
            if kind == 'data':
                while self._q and self._q[0][0] <= now and self._q[0][1] == 'data':
                    payload += self._q.popleft()[2]
                if not self._closing:
                    self.s2c_delivered += len(payload)
                    self.delivery_offsets.append(self.s2c_delivered)
                    self.net.stats['deliveries'] += 1
                    self.net.event('rx', self.id, len(payload))
                    self.protocol.data_received(payload)
                    if self.net.on_delivery:
                        self.net.on_delivery(self, payload)
            elif kind == 'eof':
                self.net.event('eof', self.id, 0)
                if not self._closing:
                    keep = self.protocol.eof_received()
                    if not keep:
                        self.close()
            elif kind == 'reset':
                self.net.event('rst', self.id, 0)
                self._closing = True
                self._call_connection_lost(ConnectionResetError(errno.ECONNRESET, 'Connection reset by peer'))
                if self.handler is not None and not self.client_eof_seen:
                    self.client_eof_seen = True
                    self.handler.on_eof(self)
        if self._q and not self._paused and not self._lost:
            if self._q[0][0] <= now:
                self._pump_handle = self.loop.call_soon(self._pump)
            else:
                self._schedule_pump()

    def _call_connection_lost(self, exc):
        if self._lost:
            return
        self._lost = True
        try:
            self.protocol.connection_lost(exc)
        finally:
            self.net.event('lost', self.id, 0)


class Refuse:
    """Listener marker: connection refused."""


class SimNet:
    def __init__(self, loop, tape, vary_latency=True, vary_segmentation=True):
        self.loop = loop
        loop.net = self
        self.tape = tape
        self.vary_latency = vary_latency
        self.vary_segmentation = vary_segmentation
        self.hosts = {}
        self.listeners = {}
        self.conns = []
        self.stats = collections.Counter()
        self.peer_exception = None      # traceback text of the first exception raised inside a simulated peer (harness bug)
        self.events = []            # scheduling-relevant events (for interleaving digest)
        self.write_context = None   # fn() -> object attached to each client write
        self.current_ctx = None
        self.on_delivery = None
        self.on_connect = None
        self.dns_latency = False
        self.seg_modes = (0, 1, 2, 3, 4)
        self.connect_faults = None  # fn(host, port) -> None | 'refuse' | 'stall' | float delay
        self.wildcard_dns = None    # ip for unknown names

    def event(self, kind, actor, info):
        self.events.append((kind, actor))

    # ---- configuration
    def add_host(self, name, ip):
        self.hosts[name.lower()] = ip

    def listen(self, ip, port, factory):
        self.listeners[(ip, port)] = factory

    def lookup(self, ip, port):
        for key in ((ip, port), (ip, None), ('*', port), ('*', None)):
            if key in self.listeners:
                return self.listeners[key]
        return None

    # ---- DNS
    async def getaddrinfo(self, host, port, *, family=0, type=0, proto=0, flags=0):
        if self.dns_latency:
            d = LAT[self.tape.draw(len(LAT), 'dns.lat')]
            if d:
                await asyncio.sleep(d)
        self.stats['dns'] += 1
        if isinstance(host, bytes):
            host = host.decode('ascii', 'replace')
        key = host.lower().rstrip('.')
        ip = self.hosts.get(key)
        if ip is None:
            try:
                socket.inet_aton(key)
                if key.count('.') == 3:
                    ip = key
            except OSError:
                pass
        if ip is None and ':' in key:
            ip = key
        if ip is None:
            ip = self.wildcard_dns
        if ip is None:
            self.stats['fault.dns_notfound'] += 1
            raise socket.gaierror(socket.EAI_NONAME, 'Name or service not known')
        if isinstance(ip, Exception):
            self.stats['fault.dns_error'] += 1
            raise ip
        if ':' in ip:
            if family == socket.AF_INET:
                raise socket.gaierror(socket.EAI_NONAME, 'Name or service not known')
            return [(socket.AF_INET6, socket.SOCK_STREAM, socket.IPPROTO_TCP, '', (ip, port, 0, 0))]
        if family == socket.AF_INET6:
            raise socket.gaierror(socket.EAI_NONAME, 'Name or service not known')
        return [(socket.AF_INET, socket.SOCK_STREAM, socket.IPPROTO_TCP, '', (ip, port))]

    # ---- TCP
    async def create_connection(self, protocol_factory, host=None, port=None, *, ssl=None,
                                sock=None, local_addr=None, server_hostname=None, **kw):
        tape = self.tape
        if sock is not None:
            # TLS upgrade of an existing simulated connection (proxy CONNECT tunnel)
            conn = sock.conn
            protocol = protocol_factory()
            conn.ssl = bool(ssl)
            conn.protocol = protocol
            conn._lost = False
            protocol.connection_made(conn)
            self.stats['tls_upgrade'] += 1
            return conn, protocol
        self.stats['connect'] += 1
        if not isinstance(port, int) or not 0 <= port <= 65535:
            # what the real loop does (getaddrinfo / sock.connect): not an OSError
            raise OverflowError('getsockaddrarg: port must be 0-65535.')
        verdict = self.connect_faults(host, port) if self.connect_faults else None
        factory = self.lookup(host, port)
        if self.vary_latency:
            d = LAT[tape.draw(len(LAT), 'connect.lat')]
        else:
            d = 0.0
        if isinstance(verdict, float):
            d += verdict
            verdict = None
        if verdict == 'stall':
            self.stats['fault.connect_stall'] += 1
            await asyncio.sleep(10 ** 7)
        if d:
            await asyncio.sleep(d)
        if factory is None or factory is Refuse or verdict == 'refuse':
            self.stats['fault.refused'] += 1
            raise ConnectionRefusedError(errno.ECONNREFUSED, 'Connection refused')
        cid = len(self.conns)
        conn = SimConn(self, cid, (host, port), ssl=ssl)
        if self.vary_segmentation:
            conn.seg_mode = self.seg_modes[tape.draw(len(self.seg_modes), 'seg.mode')]
        self.conns.append(conn)
        protocol = protocol_factory()
        conn.protocol = protocol
        self.event('conn', cid, 0)
        protocol.connection_made(conn)
        conn.handler = factory(conn)
        if self.on_connect:
            self.on_connect(conn)
        return conn, protocol
