"""Compatibility layer: makes wpull 2.0.3 (/repo working tree, unmodified) importable and
runnable on CPython 3.12 with the libraries installed in /venv.

DESIGN.md section 1 lists everything this module does. It is trusted base for every check.
Nothing here changes wpull's logic; it only restores removed library names/semantics.

Usage:  import simlib.compat; simlib.compat.install()   (idempotent, call before importing wpull)
"""
import asyncio
import asyncio.coroutines
import asyncio.locks
import collections
import collections.abc
import functools
import importlib.abc
import importlib.machinery
import importlib.util
import inspect
import os
import ssl
import sys
import types
import warnings

REPO = os.environ.get('VERIF_REPO', '/repo')

_installed = False

CO_GENERATOR = inspect.CO_GENERATOR
CO_ITERABLE_COROUTINE = inspect.CO_ITERABLE_COROUTINE


# --------------------------------------------------------------------------- 1. collections
def _install_collections():
    for name in ('Mapping', 'MutableMapping', 'Sequence', 'MutableSequence', 'Callable',
                 'Sized', 'Iterable', 'Iterator', 'Hashable', 'Set', 'MutableSet',
                 'Container', 'KeysView', 'ValuesView', 'ItemsView'):
        if not hasattr(collections, name):
            setattr(collections, name, getattr(collections.abc, name))


# --------------------------------------------------------------------------- 2. asyncio.coroutine
def _coroutine(func):
    """Python 3.10's asyncio.coroutine (without the debug wrapper)."""
    if inspect.iscoroutinefunction(func):
        return func
    if inspect.isgeneratorfunction(func):
        coro = func
    else:
        @functools.wraps(func)
        def coro(*args, **kw):
            res = func(*args, **kw)
            if (asyncio.isfuture(res) or inspect.isgenerator(res) or
                    isinstance(res, asyncio.coroutines.CoroWrapper if hasattr(
                        asyncio.coroutines, 'CoroWrapper') else ())):
                res = yield from res
            else:
                try:
                    await_meth = res.__await__
                except AttributeError:
                    pass
                else:
                    if isinstance(res, collections.abc.Awaitable):
                        res = yield from await_meth()
            return res
    wrapper = types.coroutine(coro)
    wrapper._is_coroutine = getattr(asyncio.coroutines, '_is_coroutine', object())
    return wrapper


def _install_asyncio():
    if not hasattr(asyncio, 'coroutine'):
        asyncio.coroutine = _coroutine
        asyncio.coroutines.coroutine = _coroutine
    ct = asyncio.coroutines._COROUTINE_TYPES
    if types.GeneratorType not in ct:
        asyncio.coroutines._COROUTINE_TYPES = tuple(ct) + (types.GeneratorType,)
    # iscoroutine caches positive types; nothing to reset at install time.

    # `with (yield from lock):`  (removed in 3.9)
    mixin = asyncio.locks._ContextManagerMixin

    class _ContextManager:
        def __init__(self, lock):
            self._lock = lock

        def __enter__(self):
            return None

        def __exit__(self, *args):
            try:
                self._lock.release()
            finally:
                self._lock = None

    @types.coroutine
    def __iter__(self):
        yield from self.acquire()
        return _ContextManager(self)

    if not hasattr(mixin, '__iter__'):
        mixin.__iter__ = __iter__

    # asyncio.get_event_loop() in 3.12 emits DeprecationWarning when no loop is set; harness
    # always sets one. asyncio.async is a syntax error; handled by the source rewrite below.

    # loop= keyword was removed from many asyncio APIs in 3.10. wpull passes none in the
    # explored code (verified by grep in DESIGN spike); nothing to do.


# --------------------------------------------------------------------------- 5. small library shims
def _install_shims():
    import tornado.netutil
    if not hasattr(tornado.netutil, 'SSLCertificateError'):
        tornado.netutil.SSLCertificateError = ssl.CertificateError

    if 'imp' not in sys.modules:
        imp = types.ModuleType('imp')

        def load_source(name, path):
            spec = importlib.util.spec_from_file_location(name, path)
            mod = importlib.util.module_from_spec(spec)
            sys.modules[name] = mod
            spec.loader.exec_module(mod)
            return mod
        imp.load_source = load_source
        imp.PY_SOURCE = 1
        imp.reload = importlib.reload
        sys.modules['imp'] = imp

    import html5lib
    if 'html5lib.tokenizer' not in sys.modules:
        import html5lib._tokenizer as _tok
        mod = types.ModuleType('html5lib.tokenizer')

        class HTMLTokenizer(_tok.HTMLTokenizer):
            def __init__(self, stream, encoding=None, parseMeta=True, **kw):
                if encoding is not None:
                    kw.setdefault('override_encoding', encoding)
                # html5lib 1.x: meta prescan controlled by `useChardet`/transport; the old
                # parseMeta flag has no direct equivalent (prescan always on for bytes).
                super().__init__(stream, **kw)
        mod.HTMLTokenizer = HTMLTokenizer
        sys.modules['html5lib.tokenizer'] = mod
        html5lib.tokenizer = mod

    # sqlalchemy: legacy select([cols]) form
    import sqlalchemy
    import sqlalchemy.sql.expression as sqlexpr
    _real_select = sqlalchemy.select
    if not getattr(_real_select, '_verif_wrapped', False):
        def select(*args, **kw):
            if len(args) == 1 and isinstance(args[0], (list, tuple)):
                args = tuple(args[0])
            return _real_select(*args, **kw)
        select._verif_wrapped = True
        sqlalchemy.select = select
        sqlexpr.select = select
        try:
            import sqlalchemy.sql as sqlsql
            sqlsql.select = select
        except Exception:
            pass
    warnings.filterwarnings('ignore', module='sqlalchemy')
    warnings.filterwarnings('ignore', category=DeprecationWarning)
    try:
        from sqlalchemy.exc import SAWarning
        warnings.filterwarnings('ignore', category=SAWarning)
    except Exception:
        pass


# --------------------------------------------------------------------------- 3. import hook
def _flag_code(code):
    """Return code with CO_ITERABLE_COROUTINE set on every generator code object (recursive)."""
    consts = []
    changed = False
    for c in code.co_consts:
        if isinstance(c, types.CodeType):
            n = _flag_code(c)
            changed = changed or (n is not c)
            consts.append(n)
        else:
            consts.append(c)
    flags = code.co_flags
    if flags & CO_GENERATOR and not flags & CO_ITERABLE_COROUTINE:
        flags |= CO_ITERABLE_COROUTINE
        changed = True
    if not changed:
        return code
    return code.replace(co_flags=flags, co_consts=tuple(consts))


class _WpullLoader(importlib.abc.SourceLoader):
    def __init__(self, fullname, path):
        self.fullname = fullname
        self.path = path

    def get_filename(self, fullname):
        return self.path

    def get_data(self, path):
        with open(path, 'rb') as f:
            return f.read()

    # Bypass .pyc entirely: always compile from the working tree's current source.
    def get_code(self, fullname):
        src = self.get_data(self.path)
        if b'asyncio.async(' in src:
            src = src.replace(b'asyncio.async(', b'asyncio.ensure_future(')
        code = compile(src, self.path, 'exec', dont_inherit=True)
        return _flag_code(code)

    def is_package(self, fullname):
        return os.path.basename(self.path) == '__init__.py'


class _WpullFinder(importlib.abc.MetaPathFinder):
    def find_spec(self, fullname, path=None, target=None):
        if fullname != 'wpull' and not fullname.startswith('wpull.'):
            return None
        rel = fullname.split('.')
        base = os.path.join(REPO, *rel)
        if os.path.isdir(base) and os.path.isfile(os.path.join(base, '__init__.py')):
            p = os.path.join(base, '__init__.py')
            loader = _WpullLoader(fullname, p)
            return importlib.util.spec_from_file_location(
                fullname, p, loader=loader, submodule_search_locations=[base])
        p = base + '.py'
        if os.path.isfile(p):
            loader = _WpullLoader(fullname, p)
            return importlib.util.spec_from_file_location(fullname, p, loader=loader)
        return None


def install():
    global _installed
    if _installed:
        return
    _installed = True
    sys.dont_write_bytecode = True
    _install_collections()
    _install_asyncio()
    _install_shims()
    sys.meta_path.insert(0, _WpullFinder())
    for k in [k for k in sys.modules if k == 'wpull' or k.startswith('wpull.')]:
        del sys.modules[k]
