"""Per-run simulation environment: loop + net + patched clocks/ids, and cleanup."""
import asyncio
import gc
import logging
import os
import random
import signal
import sys
import traceback
import tempfile
import time
import uuid
import warnings

from simlib import compat

compat.install()

from simlib.loop import SimLoop, SimDeadlock, SimBudgetExceeded, close_loop, new_loop  # noqa
from simlib.net import SimNet  # noqa

_real_time = time.time
_real_uuid4 = uuid.uuid4
_real_uuid1 = uuid.uuid1

warnings.simplefilter('ignore')
logging.getLogger().setLevel(logging.CRITICAL)
logging.disable(logging.CRITICAL)


class SimEnv:
    """with SimEnv(tape) as env: env.loop, env.net"""

    def __init__(self, tape, max_callbacks=300_000, max_vtime=1e7, vary_latency=True,
                 vary_segmentation=True, id_seed=12345):
        self.tape = tape
        self.loop = new_loop(max_callbacks=max_callbacks, max_vtime=max_vtime)
        self.net = SimNet(self.loop, tape, vary_latency=vary_latency,
                          vary_segmentation=vary_segmentation)
        self._idrng = random.Random(id_seed)

    def __enter__(self):
        loop = self.loop
        time.time = lambda: loop.EPOCH + loop._vtime
        rng = self._idrng
        uuid.uuid4 = lambda: uuid.UUID(int=rng.getrandbits(128), version=4)
        uuid.uuid1 = lambda *a, **k: uuid.UUID(int=rng.getrandbits(128), version=1)
        random.seed(4242)
        return self

    def __exit__(self, *exc):
        time.time = _real_time
        uuid.uuid4 = _real_uuid4
        uuid.uuid1 = _real_uuid1
        close_loop(self.loop)
        return False

    def run(self, coro, result=None):
        """run_until_complete with simulator exceptions passed through.

        A run is also bounded in CPU time (ITIMER_VIRTUAL: process CPU time, so a loaded machine does not matter): the
        callback budget cannot see a loop that never gives control back to the event loop. Exceeding it is reported as
        SimBudgetExceeded like any other runaway run."""
        limit = float(os.environ.get('VERIF_MAX_CPU_S', '45'))
        where = []

        def on_cpu(signum, frame):
            where.append(' < '.join('%s:%d:%s' % (f.filename.split('/')[-1], f.lineno, f.name)
                                    for f in reversed(traceback.extract_stack(frame, limit=8))))
            raise _CpuExceeded()
        try:
            old = signal.signal(signal.SIGVTALRM, on_cpu)
        except ValueError:          # not the main thread
            return self.loop.run_until_complete(coro)
        signal.setitimer(signal.ITIMER_VIRTUAL, limit)
        try:
            res = self.loop.run_until_complete(coro)
            if getattr(self.net, 'peer_exception', None):
                raise PeerBug('exception inside a simulated peer (harness bug):\n' + self.net.peer_exception)
            return res
        except _CpuExceeded:
            raise SimBudgetExceeded('one run used more than %g s of CPU without finishing (busy loop?) at %s' % (limit, where[:1])) from None
        finally:
            signal.setitimer(signal.ITIMER_VIRTUAL, 0)
            signal.signal(signal.SIGVTALRM, old)


class PeerBug(RuntimeError):
    """A simulated peer raised: never a verdict about the code under test (the runner reports HARNESS-ERROR)."""


class _CpuExceeded(KeyboardInterrupt):
    """Derives from KeyboardInterrupt so that asyncio tasks and wpull's `except Exception` let it through."""


def task_stacks(loop, limit=6):
    """Readable stacks of unfinished tasks (for deadlock traces)."""
    out = []
    for t in sorted(asyncio.all_tasks(loop), key=lambda t: t._sim_id):
        if t.done():
            continue
        frames = []
        coro = t.get_coro()
        depth = 0
        while coro is not None and depth < 12:
            fr = getattr(coro, 'gi_frame', None) or getattr(coro, 'cr_frame', None)
            if fr is None:
                break
            frames.append('%s:%d:%s' % (fr.f_code.co_filename.split('/')[-1], fr.f_lineno, fr.f_code.co_name))
            coro = getattr(coro, 'gi_yieldfrom', None) or getattr(coro, 'cr_await', None)
            depth += 1
        out.append('%s %s' % (t.get_name(), ' > '.join(frames[-limit:])))
    return out
