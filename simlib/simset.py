"""SimSet: a `set` replacement whose iteration / pop order is insertion order permuted by tape
draws, injected as the module-global name `set` into selected wpull modules (DESIGN 2.2).
Makes hash/address-dependent order reproducible AND explored."""
import collections.abc

CURRENT_TAPE = [None]


def set_tape(tape):
    CURRENT_TAPE[0] = tape


class SimSet(collections.abc.MutableSet):
    __slots__ = ('_d',)

    def __init__(self, iterable=()):
        self._d = dict.fromkeys(iterable)

    def __contains__(self, x):
        return x in self._d

    def __len__(self):
        return len(self._d)

    def __iter__(self):
        keys = list(self._d)
        n = len(keys)
        tape = CURRENT_TAPE[0]
        if n > 1 and tape is not None:
            k = tape.draw(n, 'set.iter')
            if k:
                keys = keys[k:] + keys[:k]
        return iter(keys)

    def add(self, x):
        self._d[x] = None

    def discard(self, x):
        self._d.pop(x, None)

    def remove(self, x):
        del self._d[x]

    def pop(self):
        n = len(self._d)
        if not n:
            raise KeyError('pop from an empty set')
        tape = CURRENT_TAPE[0]
        k = tape.draw(n, 'set.pop') if (n > 1 and tape is not None) else 0
        for i, key in enumerate(self._d):
            if i == k:
                break
        del self._d[key]
        return key

    def clear(self):
        self._d.clear()

    def update(self, *others):
        for o in others:
            for x in o:
                self._d[x] = None

    def copy(self):
        return SimSet(self._d)

    def difference(self, other):
        return SimSet(x for x in self._d if x not in other)

    def union(self, *others):
        s = SimSet(self._d)
        s.update(*others)
        return s

    def __repr__(self):
        return 'SimSet(%r)' % (list(self._d),)

    @classmethod
    def _from_iterable(cls, it):
        return cls(it)


def inject(*modules):
    for m in modules:
        m.set = SimSet
