"""Batch runner: seeded search, known-finding triage, tape shrinking, replay files, evidence.

Interface contract (DESIGN section 8):
  exit 0  property held on everything explored (KNOWN-FINDING lines possible)
  exit 1  `VIOLATION property=<id> replay=<path>` for a violation not listed as known
  exit 2  `HARNESS-ERROR ...` (never confused with a verdict)
"""
import argparse
import collections
import concurrent.futures
import faulthandler
import hashlib
import importlib
import json
import multiprocessing
import os
import re
import signal
import subprocess
import sys
import time
import traceback

from simlib.tape import Tape, derive_seed

VERIF = os.path.dirname(os.path.dirname(os.path.abspath(__file__)))
CHECK_VERSION = 1


class Violation:
    __slots__ = ('prop', 'cls', 'sig', 'detail')

    def __init__(self, prop, cls, sig, detail=''):
        self.prop = prop
        self.cls = cls          # oracle clause, stable identifier
        self.sig = sig          # specific call site / input shape (for known-finding matching)
        self.detail = detail

    def key(self):
        return (self.prop, self.cls)

    def to_json(self):
        return {'property': self.prop, 'class': self.cls, 'sig': self.sig, 'detail': self.detail}

    def __repr__(self):
        return 'Violation(%s,%s,%s,%s)' % (self.prop, self.cls, self.sig, self.detail[:200])


class Result:
    def __init__(self):
        self.violations = []
        self.trace = []           # human readable events (kept small)
        self.events = []          # scheduling relevant (kind, actor) tuples -> interleaving digest
        self.faults = collections.Counter()   # fault kinds that FIRED
        self.probes = collections.Counter()
        self.sim_time = 0.0
        self.callbacks = 0
        self.workload = None      # hashable/json-able description of the workload
        self.nontrivial = False
        self.sample = None
        self.sub = ''             # sub-batch name (e.g. 'fault-free', 'faults')
        self.real_steps = 0

    def violate(self, prop, cls, sig, detail=''):
        self.violations.append(Violation(prop, cls, sig, str(detail)))

    def log(self, *a):
        if len(self.trace) < 4000:
            self.trace.append(' '.join(str(x) for x in a))

    def digest(self):
        h = hashlib.sha256()
        for t in self.trace:
            h.update(t.encode('utf-8', 'replace'))
            h.update(b'\n')
        for v in self.violations:
            h.update(repr((v.prop, v.cls, v.sig)).encode())
        return h.hexdigest()[:24]

    def interleaving_digest(self):
        return hashlib.sha256(repr(self.events).encode()).digest()[:8]


class HarnessTimeout(Exception):
    pass


def _alarm(signum, frame):
    raise HarnessTimeout('wall-clock limit for one run exceeded')


# ----------------------------------------------------------------------------------------
# registry: property -> (module, kwargs)
REGISTRY = {
    'C01': ('harness.crawl', {}),
    'C02': ('harness.crawl', {}),
    'C03': ('harness.crash', {}),
    'C04': ('harness.archive', {}),
    'C05': ('harness.archive', {}),
    'C06': ('harness.warcfault', {}),
    'C07': ('harness.archive', {}),
    'C08': ('harness.http_stream', {}),
    'C09': ('harness.hostile', {}),
    'C12': ('harness.pool', {}),
    'C13': ('harness.pipeline', {}),
    'C14': ('harness.table', {}),
    'C16': ('harness.web', {}),
    'C17': ('harness.ftp', {}),
    'C18': ('harness.bounded', {}),
    'C19': ('harness.http_stream', {}),
    'C20': ('harness.crawl', {}),
}


def load_harness(prop):
    modname, kw = REGISTRY[prop]
    mod = importlib.import_module(modname)
    return mod, kw


def run_once(mod, prop, tape, tier, wall_limit=None):
    """Execute one simulated run. Returns Result. Harness exceptions propagate."""
    if wall_limit is None:
        wall_limit = getattr(mod, 'WALL_LIMIT', {}).get((prop, tier), 90)
        if os.environ.get('VERIF_WALL_LIMIT_TEST'):       # self-test of the timeout path only
            wall_limit = float(os.environ['VERIF_WALL_LIMIT_TEST'])
    old = signal.signal(signal.SIGALRM, _alarm)
    signal.setitimer(signal.ITIMER_REAL, wall_limit)
    try:
        return mod.run(tape, prop, tier)
    finally:
        signal.setitimer(signal.ITIMER_REAL, 0)
        signal.signal(signal.SIGALRM, old)


# ----------------------------------------------------------------------------------------
# known findings
def load_known(prop):
    path = os.path.join(VERIF, 'known_findings.json')
    try:
        with open(path) as f:
            data = json.load(f)
    except FileNotFoundError:
        return []
    return [e for e in data.get('findings', []) if e.get('property') == prop and e.get('status') == 'open']


def match_known(v, known):
    for e in known:
        if e.get('class') != v.cls:
            continue
        pat = e.get('sig_regex')
        if pat is None or re.search(pat, v.sig):
            return e
    return None


# ----------------------------------------------------------------------------------------
# worker
_W = {}


def _worker_init(prop, tier):
    faulthandler.enable()
    mod, kw = load_harness(prop)
    _W['mod'] = mod
    _W['prop'] = prop
    _W['tier'] = tier
    _W['known'] = load_known(prop)


def _chunk(args):
    base_seed, start, count, want_digests = args
    mod, prop, tier = _W['mod'], _W['prop'], _W['tier']
    agg = {
        'runs': 0, 'sim_time': 0.0, 'callbacks': 0, 'faults': collections.Counter(),
        'probes': collections.Counter(), 'inter': set(), 'work': set(), 'nontrivial': 0,
        'viol': [], 'errors': [], 'samples': [], 'subs': collections.Counter(), 'digests': {},
        'known_hits': collections.Counter(), 'runs_with_fault': 0, 'tape_len': 0, 'timeouts': [],
    }
    hist_before = list(_W.setdefault('history', []))
    _W['history'].append((start, count))
    for i in range(start, start + count):
        seed = derive_seed(base_seed, i, prop)
        tape = Tape(seed)
        try:
            r = run_once(mod, prop, tape, tier)
        except HarnessTimeout as e:
            # not a verdict and not yet an error: the run is repeated alone with a much larger limit after the batch
            # (a loaded machine must not turn into a failing check; a run that is stuck for real still ends as exit 2)
            agg['timeouts'].append({'index': i, 'seed': seed})
            continue
        except BaseException as e:           # harness bug: never a verdict
            agg['errors'].append({'index': i, 'seed': seed,
                                  'error': ''.join(traceback.format_exception(type(e), e, e.__traceback__))[-3000:]})
            if isinstance(e, (KeyboardInterrupt, SystemExit)):
                raise
            continue
        agg['runs'] += 1
        agg['sim_time'] += r.sim_time
        agg['callbacks'] += r.callbacks
        agg['faults'].update(r.faults)
        agg['probes'].update(r.probes)
        agg['subs'][r.sub] += 1
        agg['tape_len'] += len(tape.values)
        if r.faults:
            agg['runs_with_fault'] += 1
        agg['inter'].add(r.interleaving_digest())
        if r.nontrivial:
            wk = hashlib.sha256(repr(r.workload).encode()).digest()[:8]
            agg['work'].add(wk)
        if want_digests:
            agg['digests'][i] = r.digest()
        if len(agg['samples']) < 2 and r.sample is not None and r.nontrivial:
            agg['samples'].append(r.sample)
        mine = [v for v in r.violations if v.prop == prop]
        if mine:
            unknown = []
            for v in mine:
                e = match_known(v, _W['known'])
                if e is not None:
                    agg['known_hits'][e['id']] += 1
                else:
                    unknown.append(v)
            if unknown and len(agg['viol']) < 5:
                agg['viol'].append({'index': i, 'seed': seed, 'tape': list(tape.values),
                                    'violations': [v.to_json() for v in unknown],
                                    # every run this worker process executed before this one (the unchanged tree keeps no state
                                    # between runs; code under test that does can only be replayed together with its history)
                                    'history': hist_before + [(start, i - start + 1)]})
    agg['inter'] = list(agg['inter'])
    agg['work'] = list(agg['work'])
    return agg


def _retry_job(args):
    """Re-execute one run that hit the per-run wall limit, alone, with 8 x the limit. Returns 'ok' | 'timeout' | text."""
    seed, = args
    mod, prop, tier = _W['mod'], _W['prop'], _W['tier']
    limit = getattr(mod, 'WALL_LIMIT', {}).get((prop, tier), 90) * 8
    tape = Tape(seed)
    try:
        r = run_once(mod, prop, tape, tier, wall_limit=limit)
    except HarnessTimeout:
        return 'timeout', None
    except BaseException as e:
        return ''.join(traceback.format_exception(type(e), e, e.__traceback__))[-3000:], None
    mine = [v for v in r.violations if v.prop == prop and match_known(v, _W['known']) is None]
    return 'ok', ({'seed': seed, 'tape': list(tape.values), 'violations': [v.to_json() for v in mine]} if mine else None)


# ----------------------------------------------------------------------------------------
# shrinking (runs inside a worker)
def _replay_tape(mod, prop, tier, values):
    tape = Tape(values=values)
    try:
        r = run_once(mod, prop, tape, tier)
    except BaseException:
        return None, tape
    return r, tape


def _has(r, prop, cls, known):
    """cls is 'class' or ('class', 'sig')."""
    if r is None:
        return False
    sig = None
    if isinstance(cls, (tuple, list)):
        cls, sig = cls
    for v in r.violations:
        if v.prop == prop and v.cls == cls and (sig is None or v.sig == sig) and match_known(v, known) is None:
            return True
    return False


def _shrink_job(args):
    values, cls, budget_s, max_exec = args
    mod, prop, tier, known = _W['mod'], _W['prop'], _W['tier'], _W['known']
    t0 = time.monotonic()
    execs = [0]

    def ok(cand):
        if execs[0] >= max_exec or time.monotonic() - t0 > budget_s:
            return False
        execs[0] += 1
        r, tape = _replay_tape(mod, prop, tier, cand)
        return _has(r, prop, cls, known)

    cur = list(values)
    # trim unused suffix / trailing zeros first
    r, tape = _replay_tape(mod, prop, tier, cur)
    if not _has(r, prop, cls, known):
        return {'values': cur, 'execs': execs[0], 'reproduced': False}
    cur = cur[:tape.pos]
    improved = True
    while improved and execs[0] < max_exec and time.monotonic() - t0 < budget_s:
        improved = False
        # delete blocks
        size = max(1, len(cur) // 2)
        while size >= 1:
            i = 0
            while i < len(cur):
                cand = cur[:i] + cur[i + size:]
                if cand != cur and ok(cand):
                    cur = cand
                    improved = True
                else:
                    i += size
                if execs[0] >= max_exec or time.monotonic() - t0 > budget_s:
                    break
            size //= 2
        # zero blocks
        size = max(1, len(cur) // 2)
        while size >= 1:
            i = 0
            while i < len(cur):
                if any(cur[i:i + size]):
                    cand = cur[:i] + [0] * len(cur[i:i + size]) + cur[i + size:]
                    if ok(cand):
                        cur = cand
                        improved = True
                i += size
                if execs[0] >= max_exec or time.monotonic() - t0 > budget_s:
                    break
            size //= 2
        # reduce single values
        for i in range(len(cur)):
            v = cur[i]
            for nv in (0, 1, v // 2, v - 1):
                if 0 <= nv < v:
                    cand = cur[:i] + [nv] + cur[i + 1:]
                    if ok(cand):
                        cur = cand
                        improved = True
                        break
            if execs[0] >= max_exec or time.monotonic() - t0 > budget_s:
                break
    while cur and cur[-1] == 0:
        cur.pop()
    return {'values': cur, 'execs': execs[0], 'reproduced': True}


def _replay_job(values):
    mod, prop, tier = _W['mod'], _W['prop'], _W['tier']
    tape = Tape(values=values, keep_labels=True)
    r = run_once(mod, prop, tape, tier)
    return {'violations': [v.to_json() for v in r.violations if v.prop == prop],
            'trace': r.trace[-400:], 'digest': r.digest(), 'labels': tape.labels[:3000],
            'sample': r.sample}


# ----------------------------------------------------------------------------------------
def repo_head():
    try:
        out = subprocess.run(['git', '-C', os.environ.get('VERIF_REPO', '/repo'), 'rev-parse', 'HEAD'],
                             capture_output=True, text=True, timeout=10).stdout.strip()
        dirty = subprocess.run(['git', '-C', os.environ.get('VERIF_REPO', '/repo'), 'status', '--porcelain', '-uno'],
                               capture_output=True, text=True, timeout=10).stdout.strip()
        return out + ('+dirty' if dirty else '')
    except Exception:
        return 'unknown'


TIERS = {
    # per property: (quick_budget_s, thorough_budget_s, chunk)
    'default': (45, 600, 50),
}


def ensure_env():
    """Re-exec once with PYTHONHASHSEED=0 (determinism discipline, DESIGN 2.6)."""
    if os.environ.get('PYTHONHASHSEED') != '0' and not os.environ.get('VERIF_NO_REEXEC'):
        env = dict(os.environ)
        env['PYTHONHASHSEED'] = '0'
        env['VERIF_NO_REEXEC'] = '1'
        os.execve(sys.executable, [sys.executable, '-W', 'ignore'] + sys.argv, env)


def fresh_replay(prop, tier, path, timeout=1200):
    """Replay a file in a fresh interpreter; returns (exitcode, stdout)."""
    env = dict(os.environ)
    env.pop('VERIF_NO_REEXEC', None)
    p = subprocess.run([sys.executable, '-W', 'ignore', os.path.join(VERIF, 'simlib', 'cli.py'), prop,
                        '--tier', tier, '--replay', path, '--quiet'],
                       capture_output=True, text=True, timeout=timeout, env=env, cwd=VERIF)
    return p.returncode, p.stdout + p.stderr


def write_evidence(prop, data):
    d = os.path.join(VERIF, 'evidence')
    os.makedirs(d, exist_ok=True)
    path = os.path.join(d, '%s.json' % prop)
    tmp = path + '.tmp'
    with open(tmp, 'w') as f:
        json.dump(data, f, indent=1, sort_keys=True, default=str)
    os.replace(tmp, path)
    return path


def do_replay(prop, tier, path, quiet=False):
    with open(path) as f:
        rp = json.load(f)
    _worker_init(prop, tier)
    if rp.get('history_needed'):
        # the violation depends on state the code under test carried over from earlier runs in the same process
        mod = _W['mod']
        ranges = [tuple(x) for x in rp['history']]
        n = sum(c for _, c in ranges)
        print('replaying %d earlier runs of the worker process first' % (n - 1))
        last = None
        for st, cnt in ranges:
            for i in range(st, st + cnt):
                tape = Tape(derive_seed(rp['base_seed'], i, prop), keep_labels=(i == rp['run_index']))
                try:
                    last = (run_once(mod, prop, tape, tier), tape)
                except HarnessTimeout:
                    last = None
        if last is None:
            print('replay: the last run of the history did not complete')
            return 0
        r_, tape_ = last
        out = {'violations': [v.to_json() for v in r_.violations if v.prop == prop], 'trace': r_.trace[-400:], 'digest': r_.digest(),
               'labels': [], 'sample': r_.sample}
    else:
        out = _replay_job(rp['tape'])
    known = load_known(prop)
    want = rp.get('violation', {}).get('class')
    wsig = rp.get('violation', {}).get('sig')
    got = [v for v in out['violations']]
    hit = [v for v in got if v['class'] == want and (wsig is None or v['sig'] == wsig)] if want else got
    if not quiet:
        for line in out['trace']:
            print('  |', line)
    print('replay digest=%s expected=%s' % (out['digest'], rp.get('trace_digest')))
    for v in got:
        print('  violation class=%s sig=%s detail=%s' % (v['class'], v['sig'], v['detail'][:500]))
    if hit:
        print('VIOLATION property=%s replay=%s' % (prop, path))
        return 1
    print('replay: no violation of class %r reproduced' % want)
    return 0


def main(argv=None):
    ap = argparse.ArgumentParser()
    ap.add_argument('prop')
    ap.add_argument('--tier', default=os.environ.get('VERIF_TIER', 'quick'))
    ap.add_argument('--replay')
    ap.add_argument('--quiet', action='store_true')
    ap.add_argument('--seed', type=int, default=None)
    ap.add_argument('--budget', type=float, default=None)
    ap.add_argument('--runs', type=int, default=None)
    ap.add_argument('--workers', type=int, default=None)
    ap.add_argument('--digests', action='store_true', help='print per-run digests (determinism self-test)')
    ap.add_argument('--no-evidence', action='store_true')
    args = ap.parse_args(argv)
    prop = args.prop
    tier = args.tier if args.tier in ('quick', 'thorough') else 'quick'
    if prop not in REGISTRY:
        print('HARNESS-ERROR unknown property %s' % prop)
        return 2
    ensure_env()
    if args.replay:
        try:
            return do_replay(prop, tier, args.replay, args.quiet)
        except BaseException as e:
            traceback.print_exc()
            print('HARNESS-ERROR replay failed: %r' % (e,))
            return 2

    seed = args.seed if args.seed is not None else int(os.environ.get('VERIF_SEED', '1') or 1)
    workers = args.workers or int(os.environ.get('VERIF_WORKERS', '0') or 0) or min(16, os.cpu_count() or 4)
    t_start = time.monotonic()
    try:
        mod, kw = load_harness(prop)
    except BaseException as e:
        traceback.print_exc()
        print('HARNESS-ERROR cannot load harness/wpull: %r' % (e,))
        return 2
    qb, tb, chunk = getattr(mod, 'BUDGETS', {}).get(prop, TIERS['default'])
    budget = args.budget if args.budget is not None else float(os.environ.get('VERIF_BUDGET_S', 0) or 0) or (qb if tier == 'quick' else tb)
    max_runs = args.runs or (10 ** 9)
    print('check %s tier=%s seed=%d workers=%d budget=%.0fs repo=%s' % (prop, tier, seed, workers, budget, repo_head()))
    sys.stdout.flush()

    ctx = multiprocessing.get_context('fork')
    total = {
        'runs': 0, 'sim_time': 0.0, 'callbacks': 0, 'faults': collections.Counter(),
        'probes': collections.Counter(), 'inter': set(), 'work': set(),
        'viol': [], 'errors': [], 'samples': [], 'subs': collections.Counter(), 'digests': {},
        'known_hits': collections.Counter(), 'runs_with_fault': 0, 'tape_len': 0, 'timeouts': [], 'timeouts_recovered': 0,
    }
    known = load_known(prop)
    next_index = 0
    stop = False
    with concurrent.futures.ProcessPoolExecutor(max_workers=workers, mp_context=ctx,
                                                initializer=_worker_init, initargs=(prop, tier)) as ex:
        pending = set()

        def submit():
            nonlocal next_index
            n = min(chunk, max_runs - next_index)
            if n <= 0:
                return False
            pending.add(ex.submit(_chunk, (seed, next_index, n, args.digests)))
            next_index += n
            return True

        for _ in range(workers * 2):
            if not submit():
                break
        try:
            while pending:
                done, pending_ = concurrent.futures.wait(pending, timeout=600,
                                                         return_when=concurrent.futures.FIRST_COMPLETED)
                if not done:
                    print('HARNESS-ERROR worker stalled for 600 s')
                    os._exit(2)
                for fut in done:
                    pending.discard(fut)
                    agg = fut.result()
                    total['runs'] += agg['runs']
                    total['sim_time'] += agg['sim_time']
                    total['callbacks'] += agg['callbacks']
                    total['faults'].update(agg['faults'])
                    total['probes'].update(agg['probes'])
                    total['subs'].update(agg['subs'])
                    total['known_hits'].update(agg['known_hits'])
                    total['runs_with_fault'] += agg['runs_with_fault']
                    total['tape_len'] += agg['tape_len']
                    total['inter'].update(agg['inter'])
                    total['work'].update(agg['work'])
                    total['digests'].update(agg['digests'])
                    total['errors'].extend(agg['errors'])
                    total['timeouts'].extend(agg['timeouts'])
                    if len(total['samples']) < 4:
                        total['samples'].extend(agg['samples'])
                    total['viol'].extend(agg['viol'])
                if total['viol'] or len(total['errors']) > 0:
                    stop = True
                if time.monotonic() - t_start > budget:
                    stop = True
                if not stop:
                    while len(pending) < workers * 2:
                        if not submit():
                            break
        except concurrent.futures.process.BrokenProcessPool as e:
            print('HARNESS-ERROR worker died: %r' % (e,))
            return 2

        # runs that hit the wall limit while the pool was busy: repeat alone with 8 x the limit
        for t in total['timeouts'][:6]:
            try:
                verdict, viol = ex.submit(_retry_job, (t['seed'],)).result(timeout=3 * 3600)
            except Exception as e2:
                verdict, viol = repr(e2), None
            if verdict == 'ok':
                total['timeouts_recovered'] += 1
                total['runs'] += 1
                if viol is not None:
                    viol['index'] = t['index']
                    total['viol'].append(viol)
            else:
                total['errors'].append({'index': t['index'], 'seed': t['seed'],
                                        'error': 'run exceeds the wall limit even when repeated alone with 8 x the limit (%s)' % verdict})
        if total['timeouts']:
            print('note: %d run(s) hit the per-run wall limit under load; %d repeated alone and completed' % (len(total['timeouts']), total['timeouts_recovered']))
        exit_code = 0
        replay_paths = []
        if total['errors']:
            e = total['errors'][0]
            print('HARNESS-ERROR run index=%s seed=%s\n%s' % (e['index'], e['seed'], e['error']))
            exit_code = 2

        # ---- violations: shrink, write replay, verify in a fresh interpreter
        if total['viol'] and exit_code == 0:
            byclass = {}
            for item in sorted(total['viol'], key=lambda it: (len(it['tape']), it['index'])):
                for v in item['violations']:
                    byclass.setdefault((v['class'], v['sig']), (item, v))
            os.makedirs(os.path.join(VERIF, 'replays'), exist_ok=True)
            for (cls, vsig), (item, v) in list(byclass.items())[:4]:
                sb = 90 if tier == 'quick' else 240
                smax = 600
                if hasattr(mod, 'SHRINK'):
                    sb, smax = mod.SHRINK.get(prop, (sb, smax))
                try:
                    sh = ex.submit(_shrink_job, (item['tape'], (cls, vsig), sb, smax)).result(timeout=sb + 600)
                except Exception as e2:
                    sh = {'values': item['tape'], 'execs': 0, 'reproduced': False, 'error': repr(e2)}
                values = sh['values']
                try:
                    rep = ex.submit(_replay_job, values).result(timeout=1200)
                except Exception as e2:
                    rep = {'violations': [], 'trace': ['replay failed: %r' % (e2,)], 'digest': None, 'labels': []}
                vv = [x for x in rep['violations'] if x['class'] == cls and x['sig'] == vsig] or [v]
                path = os.path.join(VERIF, 'replays', '%s-%s-%d.json' % (prop, re.sub(r'[^A-Za-z0-9_.-]', '_', cls + '.' + vsig)[:60], item['seed'] % 10 ** 10))
                with open(path, 'w') as f:
                    json.dump({'property': prop, 'check_version': CHECK_VERSION, 'seed': item['seed'],
                               'base_seed': seed, 'run_index': item['index'], 'tier': tier,
                               'tape': values, 'original_tape_len': len(item['tape']),
                               'shrink_execs': sh.get('execs'),
                               'violation': vv[0], 'trace': rep['trace'],
                               'choices': [list(x) for x in rep.get('labels', [])][:1500],
                               'sample': rep.get('sample'),
                               'trace_digest': rep['digest'], 'repo_head': repo_head()}, f, indent=1, default=str)
                # fresh-process replay must reproduce
                try:
                    code, out = fresh_replay(prop, tier, path)
                except Exception as e2:
                    code, out = 2, repr(e2)
                m = re.search(r'replay digest=(\S+)', out)
                if code != 1 or not m or m.group(1) != rep['digest']:
                    # Not reproducible from its own choices. Before calling the harness nondeterministic: does it reproduce together
                    # with the runs its worker process had executed before (state kept in process-global variables of the code
                    # under test)? The unchanged tree keeps none (tools/selftest_determinism.py), a change to it may.
                    hist = item.get('history') or []
                    nhist = sum(c for _, c in hist)
                    ok_hist = False
                    if hist and nhist <= 6000:
                        with open(path) as f:
                            rpj = json.load(f)
                        rpj.update({'history': hist, 'history_needed': True, 'tape': item['tape'], 'violation': v,
                                    'note': 'reproduces only after the %d runs that preceded it in its worker process' % (nhist - 1)})
                        with open(path, 'w') as f:
                            json.dump(rpj, f, indent=1, default=str)
                        try:
                            code2, out2 = fresh_replay(prop, tier, path, timeout=3000)
                        except Exception as e2:
                            code2, out2 = 2, repr(e2)
                        ok_hist = code2 == 1
                    if not ok_hist:
                        print('HARNESS-ERROR nondeterministic: replay of %s did not reproduce (exit %s)\n%s' % (path, code, out[-2000:]))
                        exit_code = 2
                        continue
                    print('violation class=%s sig=%s' % (v['class'], v['sig']))
                    print('  detail: %s' % v['detail'][:1000])
                    print('  seed=%d run_index=%d: reproduces only together with the %d runs its worker process executed before it '
                          '(the code under test keeps state between runs in process-global variables); the replay file names them'
                          % (item['seed'], item['index'], nhist - 1))
                    print('VIOLATION property=%s replay=%s' % (prop, path))
                    replay_paths.append(path)
                    if exit_code == 0:
                        exit_code = 1
                    continue
                print('violation class=%s sig=%s' % (vv[0]['class'], vv[0]['sig']))
                print('  detail: %s' % vv[0]['detail'][:1000])
                print('  seed=%d run_index=%d tape %d -> %d choices (%d shrink executions)' % (
                    item['seed'], item['index'], len(item['tape']), len(values), sh.get('execs', 0)))
                print('VIOLATION property=%s replay=%s' % (prop, path))
                replay_paths.append(path)
                if exit_code == 0:
                    exit_code = 1

    for e in known:
        n = total['known_hits'].get(e['id'], 0)
        if n:
            print('KNOWN-FINDING: property=%s %s [%s; re-observed in %d runs]' % (prop, e['what'], e['id'], n))

    wall = time.monotonic() - t_start
    runs = total['runs']
    if runs == 0 and exit_code == 0:
        print('HARNESS-ERROR no run completed')
        exit_code = 2
    level = getattr(mod, 'LEVELS', {}).get(prop, 'exploration')
    info = getattr(mod, 'INFO', {}).get(prop, {})
    stuck = [k for k in getattr(mod, 'PROBES', {}).get(prop, []) if not total['probes'].get(k)]
    ev = {
        'property_id': prop, 'tier': tier, 'seed': seed, 'level': level,
        'wall_s': round(wall, 2),
        'violations': len(replay_paths),
        'coverage': {
            'evaluations': runs,
            'distinct_nontrivial': len(total['work']),
            'rule': info.get('rule', ''),
            'samples': total['samples'][:4] or [{'note': 'no non-trivial sample captured'}],
            'runs_per_hour': int(runs / wall * 3600) if wall > 0 else 0,
            'seeds': {'base': seed, 'first_index': 0, 'count': next_index,
                      'derivation': 'sha256(base:index:property)[:8]'},
            'simulated_seconds': round(total['sim_time'], 3),
            'callbacks_executed': total['callbacks'],
            'fault_kinds_fired': dict(total['faults']),
            'runs_with_at_least_one_fault': total['runs_with_fault'],
            'distinct_interleavings': len(total['inter']),
            'interleaving_measure': info.get('interleaving_measure', 'distinct digests of the ordered sequence of (kind, actor) scheduling events (I/O completions, timers, cancellations, kills)'),
            'sub_batches': dict(total['subs']),
            'probes': dict(total['probes']),
            'probes_stuck_at_zero': stuck,
            'mean_tape_length': round(total['tape_len'] / runs, 1) if runs else 0,
            'components': info.get('components', {}),
            'known_findings_reobserved': dict(total['known_hits']),
            'workers': workers,
            'repo_head': repo_head(),
            'exhaustive': False,
        },
        'assumptions': info.get('assumptions', []),
    }
    ev['coverage'].update(info.get('extra_coverage', {}))
    if not args.no_evidence:
        write_evidence(prop, ev)
    if args.digests:
        for i in sorted(total['digests']):
            print('DIGEST %d %s' % (i, total['digests'][i]))
    print('%s: runs=%d (%.0f/h) sim_time=%.0fs interleavings=%d nontrivial_workloads=%d faults_fired=%d wall=%.1fs exit=%d' % (
        prop, runs, runs / wall * 3600 if wall else 0, total['sim_time'], len(total['inter']), len(total['work']),
        sum(total['faults'].values()), wall, exit_code))
    return exit_code
