"""Virtual-time deterministic asyncio event loop (DESIGN 2.2).

* time() is virtual; when nothing is ready the clock jumps to the next timer.
* no selector, no threads, no real sockets: create_connection/getaddrinfo go to SimNet.
* nothing ready, no timer, main future unfinished  -> SimDeadlock
* callback / virtual-time budget exceeded          -> SimBudgetExceeded
* tasks are pure-Python Task subclasses with counter hashes (deterministic set order)
"""
import asyncio
import asyncio.tasks
import collections
import heapq
import time as _time

_real_time = _time.time


class SimDeadlock(Exception):
    pass


class SimBudgetExceeded(Exception):
    pass


class SimTask(asyncio.tasks._PyTask):
    _sim_id = 0

    def __hash__(self):
        return self._sim_id


class SimLoop(asyncio.BaseEventLoop):
    EPOCH = 1500000000.0

    def __init__(self, max_callbacks=2_000_000, max_vtime=1e9):
        super().__init__()
        self._vtime = 0.0
        self._clock_resolution = 1e-9
        self.callbacks = 0
        self.iterations = 0
        self.max_callbacks = max_callbacks
        self.max_vtime = max_vtime
        self.after_callback = None     # fn() called after every executed handle
        self.on_quiescent = None       # fn() called when ready queue empty before clock jump
        self.net = None
        self._task_seq = 0
        self.signal_handlers = {}
        self.set_task_factory(self._sim_task_factory)
        self.timer_fired = 0

    # ---- tasks
    @staticmethod
    def _sim_task_factory(loop, coro, **kw):
        loop._task_seq += 1
        kw.pop('name', None)
        t = SimTask(coro, loop=loop, name='T%d' % loop._task_seq, **kw)
        t._sim_id = loop._task_seq
        return t

    # ---- time
    def time(self):
        return self._vtime

    def wall(self):
        return self.EPOCH + self._vtime

    # ---- BaseEventLoop plumbing
    def _process_events(self, event_list):
        pass

    def _write_to_self(self):
        pass

    def run_in_executor(self, executor, func, *args):
        raise RuntimeError('SimLoop: run_in_executor is not simulated (%r)' % (func,))

    def add_signal_handler(self, sig, callback, *args):
        self.signal_handlers[sig] = (callback, args)

    def remove_signal_handler(self, sig):
        return self.signal_handlers.pop(sig, None) is not None

    async def create_connection(self, protocol_factory, host=None, port=None, **kw):
        return await self.net.create_connection(protocol_factory, host, port, **kw)

    async def getaddrinfo(self, host, port, *, family=0, type=0, proto=0, flags=0):
        return await self.net.getaddrinfo(host, port, family=family, type=type, proto=proto,
                                          flags=flags)

    async def shutdown_default_executor(self, timeout=None):
        return

    def _run_once(self):
        sched = self._scheduled
        while sched and sched[0]._cancelled:
            self._timer_cancelled_count -= 1
            h = heapq.heappop(sched)
            h._scheduled = False

        if not self._ready and not self._stopping:
            if self.on_quiescent is not None:
                self.on_quiescent()
            if not self._ready:
                # drop cancelled again (on_quiescent may cancel)
                while sched and sched[0]._cancelled:
                    self._timer_cancelled_count -= 1
                    h = heapq.heappop(sched)
                    h._scheduled = False
                if sched:
                    when = sched[0]._when
                    if when > self._vtime:
                        self._vtime = when
                        if self._vtime > self.max_vtime:
                            raise SimBudgetExceeded('virtual time budget exceeded: t=%r' % self._vtime)
                else:
                    raise SimDeadlock('nothing runnable and no timer pending at t=%r' % self._vtime)

        end_time = self._vtime + self._clock_resolution
        while sched:
            h = sched[0]
            if h._when >= end_time:
                break
            h = heapq.heappop(sched)
            h._scheduled = False
            if not h._cancelled:
                self.timer_fired += 1
            self._ready.append(h)

        self.iterations += 1
        ready = self._ready
        after = self.after_callback
        for _ in range(len(ready)):
            h = ready.popleft()
            if h._cancelled:
                continue
            self.callbacks += 1
            h._run()
            if after is not None:
                after()
        h = None
        if self.callbacks > self.max_callbacks:
            raise SimBudgetExceeded('callback budget exceeded: %d' % self.callbacks)

    def pending_timers(self):
        return [h for h in self._scheduled if not h._cancelled]


class PatchedTime:
    """Context manager: time.time() -> loop epoch + virtual time."""

    def __init__(self, loop):
        self.loop = loop

    def __enter__(self):
        loop = self.loop
        _time.time = lambda: loop.EPOCH + loop._vtime
        return self

    def __exit__(self, *a):
        _time.time = _real_time


def new_loop(**kw):
    loop = SimLoop(**kw)
    asyncio.set_event_loop(loop)
    return loop


def close_loop(loop):
    """Cancel leftovers quietly and close."""
    try:
        tasks = [t for t in asyncio.all_tasks(loop) if not t.done()]
        for t in tasks:
            t.cancel()
        if tasks:
            loop.max_callbacks = loop.callbacks + 100000
            try:
                loop.run_until_complete(asyncio.gather(*tasks, return_exceptions=True))
            except BaseException:
                pass
    finally:
        try:
            loop.close()
        except BaseException:
            pass
        asyncio.set_event_loop(None)
