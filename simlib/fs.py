"""File-system fault seam (DESIGN 2.2, C06).

While installed, builtins.open / os.remove / os.unlink / os.rename / os.truncate for paths under the
sandbox directory go through SimFS. Files opened for writing are a SimRawFile(io.FileIO) under a
REAL io.BufferedWriter / TextIOWrapper / gzip.GzipFile, so Python-level buffering is real and what
reaches the file is exactly what raw.write() was given.

Every faultable operation (open-for-write, raw write, truncate, close, unlink) is numbered. A plan
decides what happens at operation k:
    None                    -> performed normally
    ('error', errno)        -> raises OSError(errno) without side effect
    ('short', n)            -> raw write writes only n bytes and reports n (legal short write)
    ('torn-error', n, errno)-> raw write writes n bytes, then raises OSError
An observer callback is called before every operation: observer(k, kind, path, data) - used for
"kill here" snapshots (a kill leaves exactly the bytes that reached raw.write).
"""
import builtins
import errno as _errno
import io
import os

_real_open = builtins.open
_real_remove = os.remove
_real_unlink = os.unlink
_real_rename = os.rename
_real_truncate = os.truncate


class SimRawFile(io.FileIO):
    def __init__(self, fs, path, mode, fd=None):
        self._fs = None
        super().__init__(path if fd is None else fd, mode)
        self._fs = fs
        self._path = path

    def write(self, data):
        fs = self._fs
        if fs is None:
            return super().write(data)
        data = bytes(data)
        act = fs.step('write', self._path, data)
        if act is None:
            return super().write(data)
        if act[0] == 'error':
            raise OSError(act[1], os.strerror(act[1]))
        if act[0] == 'short':
            n = max(1, min(act[1], len(data)))
            return super().write(data[:n])
        if act[0] == 'torn-error':
            n = min(act[1], len(data))
            if n:
                super().write(data[:n])
            raise OSError(act[2], os.strerror(act[2]))
        return super().write(data)

    def truncate(self, size=None):
        fs = self._fs
        if fs is not None:
            act = fs.step('truncate', self._path, size)
            if act is not None and act[0] in ('error', 'torn-error'):
                raise OSError(act[-1], os.strerror(act[-1]))
        return super().truncate(size)

    def close(self):
        fs = self._fs
        if fs is not None and not self.closed:
            self._fs = None
            act = fs.step('close', self._path, None)
            if act is not None and act[0] in ('error', 'torn-error'):
                try:
                    super().close()
                finally:
                    raise OSError(act[-1], os.strerror(act[-1]))
        return super().close()


class SimFS:
    def __init__(self, root):
        self.root = os.path.realpath(root)
        self.ops = 0
        self.plan = {}
        self.observer = None
        self.log = []
        self.fired = []

    def inside(self, path):
        try:
            p = os.path.realpath(os.fspath(path))
        except TypeError:
            return False
        return p == self.root or p.startswith(self.root + os.sep)

    def step(self, kind, path, data):
        k = self.ops
        self.ops += 1
        self.log.append((k, kind, os.path.basename(path), len(data) if isinstance(data, (bytes, bytearray)) else data))
        if self.observer is not None:
            self.observer(k, kind, path, data)
        act = self.plan.get(k)
        if act is not None:
            self.fired.append((k, kind, os.path.basename(path), act))
        return act

    # ---- patched entry points
    def open(self, file, mode='r', buffering=-1, encoding=None, errors=None, newline=None, closefd=True, opener=None):
        if opener is not None and not isinstance(file, int) and self.inside(file) and os.path.isdir(file) and any(c in mode for c in 'wax+') and 'b' in mode:
            # tempfile.NamedTemporaryFile(dir=<sandbox>): the opener creates the file and hands back its descriptor; its writes are
            # file operations like any other (a full disk does not spare the scratch files)
            fd = opener(file, os.O_RDWR)
            try:
                path = os.readlink('/proc/self/fd/%d' % fd)
            except OSError:
                path = os.path.join(os.fspath(file), 'tmp-fd-%d' % fd)
            act = self.step('open', path, mode)
            if act is not None and act[0] in ('error', 'torn-error'):
                os.close(fd)
                try:
                    _real_unlink(path)
                except OSError:
                    pass
                raise OSError(act[-1], os.strerror(act[-1]))
            raw = SimRawFile(self, path, mode.replace('b', '').replace('t', ''), fd=fd)
            if buffering == 0:
                return raw
            return io.BufferedRandom(raw) if '+' in mode else io.BufferedWriter(raw)
        if isinstance(file, int) or opener is not None or not self.inside(file) or not any(c in mode for c in 'wax+') or os.path.isdir(file):
            return _real_open(file, mode, buffering, encoding, errors, newline, closefd, opener)
        act = self.step('open', file, mode)
        if act is not None and act[0] in ('error', 'torn-error'):
            raise OSError(act[-1], os.strerror(act[-1]))
        rawmode = mode.replace('b', '').replace('t', '')
        raw = SimRawFile(self, file, rawmode)
        if buffering == 0:
            return raw
        if '+' in mode:
            buf = io.BufferedRandom(raw)
        else:
            buf = io.BufferedWriter(raw)
        if 'b' in mode:
            return buf
        return io.TextIOWrapper(buf, encoding=encoding, errors=errors, newline=newline)

    def remove(self, path, *a, **k):
        if self.inside(path):
            act = self.step('unlink', path, None)
            if act is not None and act[0] in ('error', 'torn-error'):
                raise OSError(act[-1], os.strerror(act[-1]))
        return _real_remove(path, *a, **k)

    def rename(self, src, dst, *a, **k):
        if self.inside(src) or self.inside(dst):
            act = self.step('rename', src, None)
            if act is not None and act[0] in ('error', 'torn-error'):
                raise OSError(act[-1], os.strerror(act[-1]))
        return _real_rename(src, dst, *a, **k)

    def truncate(self, path, length):
        if not isinstance(path, int) and self.inside(path):
            act = self.step('truncate', path, length)
            if act is not None and act[0] in ('error', 'torn-error'):
                raise OSError(act[-1], os.strerror(act[-1]))
        return _real_truncate(path, length)

    def __enter__(self):
        builtins.open = self.open
        io.open = self.open
        os.remove = self.remove
        os.unlink = self.remove
        os.rename = self.rename
        os.truncate = self.truncate
        return self

    def __exit__(self, *exc):
        builtins.open = _real_open
        io.open = _real_open
        os.remove = _real_remove
        os.unlink = _real_unlink
        os.rename = _real_rename
        os.truncate = _real_truncate
        return False


def snapshot_dir(root):
    out = {}
    for name in sorted(os.listdir(root)):
        p = os.path.join(root, name)
        if os.path.isfile(p):
            with _real_open(p, 'rb') as f:
                out[name] = f.read()
    return out


def restore_dir(root, snap):
    for name in os.listdir(root):
        p = os.path.join(root, name)
        if os.path.isfile(p) and name not in snap:
            _real_unlink(p)
    for name, data in snap.items():
        with _real_open(os.path.join(root, name), 'wb') as f:
            f.write(data)
