import os
import sys

sys.path.insert(0, os.path.dirname(os.path.dirname(os.path.abspath(__file__))))
sys.dont_write_bytecode = True

if __name__ == '__main__':
    from simlib import runner
    sys.exit(runner.main())
