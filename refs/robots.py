"""Reference matcher for the restricted robots.txt dialect emitted by the generator (DESIGN C20). No wpull imports.

Dialect: groups of 'User-agent:' lines followed by 'Allow:' / 'Disallow:' prefix rules; comments; blank lines;
CRLF or LF. Inside a group a more specific Allow always precedes the Disallow it refines, so first-match and
longest-match evaluation agree."""


def parse(text):
    groups = []          # [(agents [lower], rules [(allow?, prefix)])]
    agents, rules, last_was_agent = [], [], False
    for raw in text.replace('\r\n', '\n').split('\n'):
        line = raw.split('#', 1)[0].strip()
        if not line or ':' not in line:
            continue
        k, v = line.split(':', 1)
        k, v = k.strip().lower(), v.strip()
        if k == 'user-agent':
            if not last_was_agent and (agents or rules):
                groups.append((agents, rules))
                agents, rules = [], []
            agents.append(v.lower())
            last_was_agent = True
        elif k in ('allow', 'disallow'):
            rules.append((k == 'allow', v))
            last_was_agent = False
    if agents or rules:
        groups.append((agents, rules))
    return groups


def allowed(groups, user_agent, path):
    if path == '/robots.txt':
        return True
    ua = user_agent.lower()
    chosen = None
    for agents, rules in groups:
        if any(a != '*' and a and a in ua for a in agents):
            chosen = rules
            break
    if chosen is None:
        for agents, rules in groups:
            if '*' in agents:
                chosen = rules
                break
    if chosen is None:
        return True
    for allow, prefix in chosen:
        if prefix == '':
            if not allow:
                continue        # empty Disallow allows everything
            return True
        if _matches(_pct(prefix), path):
            return allow
    return True


def _matches(pattern, path):
    """Prefix match; '*' stands for any run of characters and a final '$' anchors the end (RFC 9309 2.2.3)."""
    if '*' not in pattern and not pattern.endswith('$'):
        return path.startswith(pattern)
    import re
    anchored = pattern.endswith('$')
    if anchored:
        pattern = pattern[:-1]
    rx = '.*'.join(re.escape(part) for part in pattern.split('*'))
    return re.match(rx + ('$' if anchored else ''), path, re.S) is not None


def _pct(prefix):
    """A rule path written in raw UTF-8 means the same as its percent-encoded form (RFC 9309 2.2.2)."""
    return ''.join(c if ord(c) < 128 else ''.join('%%%02X' % b for b in c.encode('utf-8')) for c in prefix)
