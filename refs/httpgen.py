"""Generator of HTTP/1.1 response messages (well-formed, RFC 7230 unambiguous) with many
spellings, plus grammar-aware mutations for hostile-peer runs. No wpull imports.

gen_response(tape, **opts) -> Resp
"""
import gzip
import io
import zlib

REASONS = {100: 'Continue', 102: 'Processing', 200: 'OK', 201: 'Created', 204: 'No Content', 206: 'Partial Content',
           301: 'Moved Permanently', 302: 'Found', 304: 'Not Modified', 400: 'Bad Request', 401: 'Unauthorized',
           403: 'Forbidden', 404: 'Not Found', 410: 'Gone', 500: 'Internal Server Error', 503: 'Service Unavailable'}

TEXT = (b'<html><head><title>t</title></head><body><a href="x">x</a> lorem ipsum dolor sit amet '
        b'consectetur adipiscing elit sed do eiusmod tempor</body></html>\n')


class Resp:
    def __init__(self):
        self.method = 'GET'
        self.status = 200
        self.head = b''            # status line + header block + blank line, as sent
        self.body_wire = b''       # body in transfer (and content) coding as sent, incl. chunk framing/trailers
        self.payload = b''         # decoded content the caller should end up with
        self.coded = b''           # body after transfer decoding (still content-coded)
        self.coding = 'identity'
        self.framing = 'length'
        self.surplus = b''         # bytes sent after the message on the same connection (overrun)
        self.close_after = False   # server closes after sending
        self.truncate_at = None    # cut the message at this offset, then FIN or RST
        self.truncate_kind = None  # 'fin' | 'rst'
        self.hints = []            # offsets of grammar boundaries inside message
        self.desc = {}

    @property
    def message(self):
        return self.head + self.body_wire

    @property
    def wire(self):
        return self.message + self.surplus


def make_payload(tape, rng, big_ok=True):
    kind = tape.weighted([(12, 'text'), (8, 'empty'), (8, 'binary'), (4, 'big'), (4, 'one'), (1 if big_ok else 0, 'huge-compressible')], 'payload.kind')
    if kind == 'empty':
        return b''
    if kind == 'one':
        return bytes([rng.randrange(256)])
    if kind == 'text':
        n = 1 + tape.draw(4, 'payload.rep')
        return TEXT * n
    if kind == 'huge-compressible':
        # compresses better than 64:1 - a small piece of the coded stream inflates to several hundred KiB
        n = tape.choice((300_000, 600_000, 1_100_000), 'payload.huge')
        unit = tape.choice((b'\0', b'abcdefgh', b'<tr><td>0</td></tr>\n'), 'payload.huge.unit')
        return (unit * (n // len(unit) + 1))[:n]
    if kind == 'binary':
        n = 1 + tape.draw(300, 'payload.len')
        return bytes(rng.randrange(256) for _ in range(n))
    # big: crosses the 4096 read size and 64 KiB stream limit sometimes
    n = tape.choice((4095, 4096, 4097, 9000, 70000), 'payload.big') if big_ok else 5000
    base = bytes(rng.randrange(256) for _ in range(251))
    return (base * (n // 251 + 1))[:n]


def encode_content(payload, coding, rng):
    if coding == 'gzip':
        buf = io.BytesIO()
        with gzip.GzipFile(fileobj=buf, mode='wb', compresslevel=rng.choice((1, 6, 9)), mtime=0) as f:
            f.write(payload)
        return buf.getvalue()
    if coding == 'deflate-zlib':
        # all legal window sizes (header bytes 0x18..0x78), levels and strategies
        c = zlib.compressobj(rng.choice((0, 1, 6, 9)), zlib.DEFLATED, rng.choice((15, 15, 9, 10, 12, 14)), rng.choice((8, 1, 9)),
                             rng.choice((zlib.Z_DEFAULT_STRATEGY, zlib.Z_FILTERED, zlib.Z_HUFFMAN_ONLY, zlib.Z_FIXED)))
        return c.compress(payload) + c.flush()
    if coding == 'deflate-raw' and len(payload) >= 29 and rng.randrange(6) == 0:
        # a raw deflate stream from another encoder: stored blocks, the ignored padding bits of the first block header not
        # zero (RFC 1951 3.2.4) - its first two bytes 08 1d pass for a zlib header (RFC 1950: CM=8, 0x081d % 31 == 0)
        out = bytearray(b'\x08' + (29).to_bytes(2, 'little') + (29 ^ 0xffff).to_bytes(2, 'little') + payload[:29])
        rest = payload[29:]
        while len(rest) > 65535:
            out += b'\x00' + (65535).to_bytes(2, 'little') + (0).to_bytes(2, 'little') + rest[:65535]
            rest = rest[65535:]
        out += b'\x01' + len(rest).to_bytes(2, 'little') + (len(rest) ^ 0xffff).to_bytes(2, 'little') + rest
        assert zlib.decompressobj(-15).decompress(bytes(out)) == payload
        return bytes(out)
    if coding == 'deflate-raw':
        c = zlib.compressobj(rng.choice((0, 1, 6, 9)), zlib.DEFLATED, -rng.choice((15, 15, 9, 12)), rng.choice((8, 1, 9)),
                             rng.choice((zlib.Z_DEFAULT_STRATEGY, zlib.Z_HUFFMAN_ONLY, zlib.Z_FIXED)))
        return c.compress(payload) + c.flush()
    return payload


def chunk_encode(tape, rng, coded, hints, base, eol=b'\r\n'):
    out = bytearray()
    pos = 0
    n = len(coded)
    nch = 0
    while pos < n:
        if tape.chance(1, 3, 'chunk.rest'):
            size = n - pos
        else:
            size = 1 + tape.draw(min(n - pos, 40), 'chunk.size')
        style = tape.draw(5, 'chunk.style')
        hx = '%x' % size
        if style == 1:
            hx = hx.upper()
        elif style == 2:
            hx = '000' + hx
        ext = b''
        if style == 3:
            ext = b';name=value'
        elif style == 4:
            ext = b' ; a="q;uo\\"ted" ;b'
        hints.append(base + len(out))
        out += hx.encode() + ext + eol
        hints.append(base + len(out))
        out += coded[pos:pos + size]
        hints.append(base + len(out))
        out += eol
        pos += size
        nch += 1
    hints.append(base + len(out))
    last = tape.choice((b'0', b'00', b'0;last'), 'chunk.last')
    out += last + eol
    hints.append(base + len(out))
    trailers = b''
    if tape.chance(1, 3, 'trailer'):
        trailers = b'X-Trailer: tv' + eol
        if tape.chance(1, 2, 'trailer2'):
            trailers += b'Content-MD5: Q2hlY2s=' + eol
        if tape.chance(1, 3, 'trailer3'):
            # fields that would mean something in the header block: in the trailer they describe nothing that was decided before
            # (RFC 7230 4.1.2: framing, routing, ... fields are not allowed there; a recipient may ignore them, never apply them late)
            trailers += tape.choice((b'Content-Type: text/x-from-trailer', b'Content-Length: 3', b'Content-Encoding: gzip', b'Connection: close'), 'trailer3.f') + eol
    out += trailers
    hints.append(base + len(out))
    out += eol if not tape.chance(1, 12, 'chunk.final_lf') else b'\n'
    return bytes(out), nch, bool(trailers)


def fmt_field(tape, name, value, lf_only=False):
    style = tape.draw(7, 'field.style')
    eol = b'\n' if lf_only else b'\r\n'
    n = name.encode('latin-1')
    v = value.encode('latin-1')
    if style == 0:
        return n + b': ' + v + eol
    if style == 1:
        return n.lower() + b':' + v + eol
    if style == 2:
        return n.upper() + b':   ' + v + b'  ' + eol
    if style == 3:
        return n + b':\t' + v + b'\t' + eol
    if style == 4:
        return n.swapcase() + b': ' + v + eol
    if style == 5:
        return n + b':  ' + v + eol
    return n + b': ' + v + eol


EXTRA_FIELDS = [
    ('Server', 'sim/1.0'), ('Date', 'Mon, 01 Jan 2018 00:00:00 GMT'), ('X-Empty', ''),
    ('Set-Cookie', 'a=b; Path=/'), ('Set-Cookie', 'c=d'), ('Content-Type', 'text/html; charset=utf-8'),
    ('Content-Type', 'application/octet-stream'), ('X-Long', 'v' * 300), ('Cache-Control', 'no-cache, no-store'),
    ('X-Latin', 'caf\xe9 \xfcber'), ('Vary', 'Accept-Encoding'), ('ETag', '"abc:def"'),
    # obs-text bytes that are line boundaries for str.splitlines() once decoded as Latin-1 (NEL, VT, FF, FS, GS, RS): inside a
    # field value they are just bytes (RFC 7230 3.2.6), the line ends at LF only
    ('X-Note', 'caf\x85Content-Length: 0'), ('X-Title', 'page\x0ctwo\x0bthree'), ('X-Sep', 'a\x1cb\x1dContent-Type: application/x-evil\x1ec'),
]


def gen_response(tape, method='GET', allow_truncate=False, allow_surplus=True, allow_close_framing=True,
                 allow_nobody_with_length=True, allow_coding=True, allow_lf=True, allow_fold=True,
                 big_ok=True, content_types=None, surplus_same_read_only=False, allow_interim=False, allow_stray_crlf=False, allow_length_framing=True):
    r = Resp()
    rng = tape.subrng('resp.rng')
    r.method = method
    status = tape.weighted([(8, 200), (1, 404), (1, 206), (1, 500), (1, 204), (1, 304), (1, 301), (1, 100), (1, 401), (1, 205)], 'status')
    r.status = status
    nobody = method == 'HEAD' or status in (204, 304) or 100 <= status < 200
    version = 'HTTP/1.1' if not tape.chance(1, 8, 'http10') else 'HTTP/1.0'
    lf_only = allow_lf and tape.chance(1, 10, 'lf_only')
    eol = b'\n' if lf_only else b'\r\n'
    reason = REASONS.get(status, 'Status')
    rs = tape.draw(4, 'reason.style')
    if rs == 1:
        reason = ''
    elif rs == 2:
        reason = reason + ' (extra  words)'
    status_line = ('%s %d %s' % (version, status, reason)).encode('latin-1')
    if rs == 3:
        status_line = ('%s %d' % (version, status)).encode('latin-1')
    # payload + content coding
    payload = b'' if nobody else make_payload(tape, rng, big_ok)
    if status == 205:
        payload = b''       # 205 Reset Content has no content, but - unlike 204/304 - it is framed like any response (RFC 7231 6.3.6)
    coding = 'identity'
    if allow_coding and not nobody and tape.chance(2, 5, 'coded'):
        coding = tape.choice(('gzip', 'deflate-zlib', 'deflate-raw', 'gzip', 'deflate-zlib', 'deflate-raw', 'gzip-identity'), 'coding')
    if coding == 'gzip-identity':
        # labelled gzip but sent as is (wpull documents: a body without the gzip magic is passed through); the byte
        # 0x1f inside it must not matter wherever the stream is cut
        if payload[:1] == b'\x1f' or not payload:
            payload = b'plain' + payload
        k = tape.draw(len(payload), 'gzid.pos')
        payload = payload[:k + 1] + tape.choice((b'\x1f', b'\x1f\x8b', b'\x1f\x8b\x08\x00'), 'gzid.magic') + payload[k + 1:]
    coded = encode_content(payload, coding, rng)
    trailing_at = None
    if coding == 'gzip' and tape.chance(1, 8, 'gzip.trailing'):
        # bytes behind the end of the compressed stream (padding, a second member): part of the body as transferred - an archive
        # keeps them - while the decoded content is that of the first stream (what zlib yields; unused data is dropped)
        trailing_at = len(coded)
        coded += tape.choice((b'\0' * 8, b'\0', encode_content(b'second member', 'gzip', rng), b'junk after the stream'), 'gzip.trailing.kind')
        r.desc['trailing_after_coded_stream'] = len(coded) - trailing_at
    r.payload, r.coded, r.coding = payload, coded, coding
    fields = []
    if coding != 'identity':
        cev = 'gzip' if coding in ('gzip', 'gzip-identity') else 'deflate'
        if tape.chance(1, 5, 'ce.case'):
            cev = cev.upper()
        fields.append(('Content-Encoding', cev))
    elif tape.chance(1, 10, 'ce.identity'):
        fields.append(('Content-Encoding', 'identity'))
    # framing
    if nobody:
        framing = 'none'
        if allow_nobody_with_length and tape.chance(1, 3, 'nobody.len'):
            # legal: HEAD / 304 may carry the length of the representation
            if method == 'HEAD' or status == 304:
                if tape.chance(1, 4, 'nobody.te') and method == 'HEAD':
                    fields.append(('Transfer-Encoding', 'chunked'))
                else:
                    fields.append(('Content-Length', str(5 + tape.draw(500, 'nobody.cl'))))
        r.desc['nobody_with_length'] = any(n in ('Content-Length', 'Transfer-Encoding') for n, _ in fields)
    else:
        opts = [(4, 'length'), (4, 'chunked')] if allow_length_framing else [(4, 'chunked')]
        if allow_close_framing:
            opts.append((2, 'close'))
        framing = tape.weighted(opts, 'framing')
        if version == 'HTTP/1.0' and framing == 'chunked':
            framing = 'length' if allow_length_framing else 'close'
    r.framing = framing
    hints = []
    if framing == 'length':
        fields.append(('Content-Length', str(len(coded))))
    elif framing == 'chunked':
        tev = tape.choice(('chunked', 'Chunked', 'chunked', 'CHUNKED', 'chunked ;x=1', 'chunked; q=1', 'chunked,', ', chunked', 'chunked , '), 'te.case')      # transfer-extension: token *( OWS ";" OWS parameter )
        fields.append(('Transfer-Encoding', tev))
        if tape.chance(1, 6, 'cl.and.te'):
            # RFC 7230 3.3.3 rule 3: Transfer-Encoding overrides Content-Length (whatever it says: too much, too little, nothing)
            fields.append(('Content-Length', tape.choice((str(len(coded) + 7), '0', '1', str(len(coded))), 'cl.and.te.v')))
    # connection handling
    conn_hdr = None
    if framing == 'close':
        r.close_after = True
        if tape.chance(1, 2, 'close.hdr'):
            conn_hdr = 'close'
    else:
        c = tape.draw(6, 'conn')
        if c == 1:
            conn_hdr = 'close'
            r.close_after = True
        elif c == 2:
            conn_hdr = 'keep-alive' if version == 'HTTP/1.1' else 'Keep-Alive'
        elif c == 3:
            conn_hdr = 'Close'
            r.close_after = True
        if version == 'HTTP/1.0' and conn_hdr is None:
            r.close_after = True
    if conn_hdr:
        fields.append(('Connection', conn_hdr))
    if content_types:
        fields.append(('Content-Type', tape.choice(content_types, 'ctype')))
    nextra = tape.draw(4, 'nextra')
    for _ in range(nextra):
        fields.append(EXTRA_FIELDS[tape.draw(len(EXTRA_FIELDS), 'extra')])
    order = tape.shuffle_order(len(fields), 'field.order') if tape.chance(1, 2, 'shuffle') else range(len(fields))
    head = bytearray(status_line + eol)
    hints.append(len(head))
    for i in order:
        name, value = fields[i]
        if allow_fold and name.startswith('X-Long') and tape.chance(1, 2, 'fold'):
            head += name.encode() + b': ' + value[:100].encode() + eol + b' ' + value[100:200].encode() + eol + b'\t' + value[200:].encode() + eol
        else:
            head += fmt_field(tape, name, value, lf_only)
        hints.append(len(head))
    if allow_fold and tape.chance(1, 14, 'junk.line'):
        # a line that is no field at all (a CGI script printing a second status line, a stray word): tolerated by clients and
        # skipped, it does not end the header block and takes nothing away from the fields around it
        head += tape.choice((b'HTTP/1.0 200 OK', b'Status 200', b'garbage-without-colon'), 'junk.line.k') + eol
        hints.append(len(head))
        r.desc['junk_header_line'] = True
    if allow_fold and tape.chance(1, 12, 'fold.empty'):
        # obs-fold whose continuation line holds only whitespace: still part of the header block
        head += b'X-Note: value' + eol + tape.choice((b' ', b'\t', b'  \t '), 'fold.empty.ws') + eol
        hints.append(len(head))
        if tape.chance(1, 2, 'fold.empty.more'):
            head += b'X-After: fold' + eol
    hints.append(len(head) + 1)
    head += eol
    r.head = bytes(head)
    base = len(head)
    hints.append(base)
    if framing == 'chunked':
        ceol = b'\n' if (lf_only or (allow_lf and tape.chance(1, 12, 'chunk.lf'))) else b'\r\n'
        r.body_wire, nch, tr = chunk_encode(tape, rng, coded, hints, base, ceol)
        r.desc['chunk_lf'] = ceol == b'\n'
        r.desc['chunks'] = nch
        r.desc['trailers'] = tr
    elif framing in ('length', 'close'):
        r.body_wire = coded
        if coding == 'gzip-identity':
            hints += [base + i for i in range(len(coded)) if coded[i] == 0x1f][:6]
        hints.append(base + 1)
        hints.append(base + 2)
        hints.append(base + len(coded) - 1)
        if trailing_at is not None:
            hints.insert(0, base + trailing_at)
    else:
        r.body_wire = b''
    total = len(r.head) + len(r.body_wire)
    hints.append(total)
    # overrun: bytes after a length-delimited body
    if surplus_same_read_only and (len(coded) == 0 or len(coded) % 4096 == 0):
        allow_surplus = False
    if allow_surplus and framing == 'length' and tape.chance(1, 6, 'surplus'):
        r.surplus = tape.choice((b'X', b'\r\n', b'garbage after the message', b'HTTP/1.1 200 OK\r\nContent-Length: 1\r\n\r\nZ'), 'surplus.kind')
    if allow_stray_crlf and allow_surplus and not r.surplus and not r.close_after and framing in ('chunked', 'none') and tape.chance(1, 8, 'stray_crlf'):
        # an empty line after a complete message (some servers end every response with an extra CRLF): it belongs to no response
        r.surplus = tape.choice((b'\r\n', b'\r\n\r\n', b'\n'), 'stray_crlf.kind')
        r.desc['stray_crlf'] = True
    if allow_truncate and total > 1 and tape.chance(1, 5, 'truncate'):
        where = tape.draw(4, 'trunc.where')
        if where == 0:
            r.truncate_at = 1 + tape.draw(total - 1, 'trunc.at')
        elif where == 1 and len(r.body_wire) > 1:
            r.truncate_at = base + tape.draw(len(r.body_wire), 'trunc.at')
        elif where == 2:
            r.truncate_at = max(1, total - 1 - tape.draw(min(total - 1, 8), 'trunc.at'))
        else:
            r.truncate_at = max(1, min(total - 1, hints[tape.draw(len(hints), 'trunc.hint')]))
        r.truncate_kind = 'rst' if tape.chance(1, 3, 'trunc.rst') else 'fin'
        r.surplus = b''
    r.hints = sorted(set(h for h in hints if 0 < h < total))
    if allow_interim and version == 'HTTP/1.1' and not 100 <= status < 200 and tape.chance(1, 10, 'interim'):
        # interim (1xx) responses before the final one (RFC 7231 6.2): part of the answer to the same request
        blocks = []
        for _ in range(tape.between(1, 2, 'interim.n')):
            blocks.append(tape.choice((b'HTTP/1.1 100 Continue' + eol + eol,
                                       b'HTTP/1.1 103 Early Hints' + eol + b'Link: </style.css>; rel=preload; as=style' + eol + eol,
                                       b'HTTP/1.1 102 Processing' + eol + b'X-Progress: 1' + eol + eol,
                                       # (any 1xx is interim and bodiless, registered or not: RFC 7231 6.2)
                                       b'HTTP/1.1 110 Still Thinking' + eol + eol, b'HTTP/1.1 199 Misc Interim' + eol + b'X-Note: n' + eol + eol), 'interim.kind'))
        pre = b''.join(blocks)
        shift = len(pre)
        r.desc['interim'] = len(blocks)
        r.desc['interim_status'] = int(blocks[0][9:12])
        r.head = pre + r.head
        cuts, acc = [], 0
        for b in blocks:
            acc += len(b)
            cuts += [acc - 1, acc]
        r.hints = sorted(set(cuts + [h + shift for h in r.hints]))
        if r.truncate_at is not None:
            r.truncate_at += shift if tape.chance(3, 4, 'interim.trunc.after') else 0
        total += shift
    r.desc.update({'status': status, 'method': method, 'version': version, 'framing': framing, 'coding': coding,
                   'payload_len': len(payload), 'lf_only': lf_only, 'surplus': len(r.surplus),
                   'truncate_at': r.truncate_at, 'truncate_kind': r.truncate_kind, 'close_after': r.close_after,
                   'head_len': len(r.head), 'wire_len': total})
    return r


# ---------------------------------------------------------------------------------------------
# hostile-peer generators (C09): grammar-aware mutations of valid traffic and raw random bytes
LONG = 70000          # longer than asyncio.StreamReader's 64 KiB line limit
ODD_CONTENT_TYPES = (b'text/html; charset=\xff', b'text/html; charset=nonexistent-codec', b';;;', b'text/html; charset="', b'text/html; charset=utf-16',
                     b'text/html; charset=undefined', b'text/html; charset=hex', b'text/html; charset=base64', b'text/css; charset=zlib', b'text/html; charset=rot13',
                     b'application/javascript; charset=bz2', b'text/html; charset=utf-7', b'text/html; charset=idna', b'text/html; charset=punycode',
                     b'text/html; charset=unicode_escape', b'text/html; charset=utf-32', b'text/html; charset=mbcs', b'text/html; charset=' + b'x' * 300)


def mutate_message(tape, resp):
    """Returns (wire bytes, description). The message is resp.message with one or two grammar-aware mutations."""
    rng = tape.subrng('mut.rng')
    head_lines = resp.head.split(b'\r\n')
    body = resp.body_wire
    desc = []
    for _ in range(tape.between(1, 2, 'mut.n')):
        k = tape.draw(24, 'mut.kind')
        if k == 0 and len(head_lines) > 3:
            i = 1 + tape.draw(len(head_lines) - 3, 'mut.i')
            desc.append('delete-header:%r' % head_lines[i][:20])
            del head_lines[i]
        elif k == 1 and len(head_lines) > 3:
            i = 1 + tape.draw(len(head_lines) - 3, 'mut.i')
            head_lines.insert(i, head_lines[i])
            desc.append('duplicate-header')
        elif k == 2:
            v = tape.choice((b'99999999999999999999999', b'-5', b'0x10', b'abc', b'', b'1e3', b'12 34', b'\xff\xfe', b'1\xb2', b'\xb9\xb2\xb3',
                             b'9' * 5000, b'+5', b'5_0', b' 7 ', b'\xbc', b'0' * 4400 + b'5', b'1\x00'), 'mut.cl')
            head_lines = [ln for ln in head_lines if not ln.lower().startswith(b'content-length')]
            head_lines.insert(1, b'Content-Length: ' + v)
            desc.append('content-length:%r' % v)
        elif k == 3:
            head_lines[0] = tape.choice((b'', b'HTTP/1.1', b'HTTP/1.1 abc OK', b'HTTP/9.9 200 OK', b'ICY 200 OK', b'\x00\x01\x02', b'HTTP/1.1 2000 OK',
                                         b'HTTP/1.1 -1 X', b'<html>'), 'mut.status')
            desc.append('status-line:%r' % head_lines[0])
        elif k == 4:
            head_lines[0] = b'HTTP/1.1 200 ' + b'A' * LONG
            desc.append('status-line-long')
        elif k == 5:
            head_lines.insert(1, b'X-Long: ' + b'B' * LONG)
            desc.append('header-line-long')
        elif k == 6:
            head_lines.insert(1, tape.choice((b'NoColonHere', b': empty name', b'Bad Name: x', b'X-Nul: a\x00b', b'X-Bare-CR: a\rb', b'X-8bit: \xff\xfe\x80',
                                              b' leading space: x', b'\tfolded-first'), 'mut.hdr'))
            desc.append('odd-header')
        elif k == 7 and resp.framing == 'chunked':
            v = tape.choice((b'zz', b'-1', b'ffffffffffffffffffff', b'', b'1;' + b'e' * LONG, b'G', b'0x5', b' 5'), 'mut.chunksize')
            body = v + b'\r\n' + body
            desc.append('chunk-size:%r' % v[:20])
        elif k == 8 and resp.framing == 'chunked':
            # chunk terminator replaced by a very long line without newline
            i = body.find(b'\r\n')
            body = body[:i + 2] + b'C' * LONG
            desc.append('chunk-body-long-no-terminator')
        elif k == 9 and resp.framing == 'chunked':
            body = body[:-2] + b'X-Trailer: ' + b'T' * LONG + b'\r\n\r\n'
            desc.append('trailer-long')
        elif k == 10 and resp.framing == 'chunked':
            j = body.rfind(b'0')
            body = body[:j] + b'5\r\nab'            # chunk shorter than announced, then EOF
            desc.append('chunk-short')
        elif k == 11:
            head_lines = [ln for ln in head_lines if not ln.lower().startswith(b'content-encoding')]
            head_lines.insert(1, b'Content-Encoding: ' + tape.choice((b'gzip', b'deflate'), 'mut.ce'))
            desc.append('wrong-content-encoding')
        elif k == 12 and body:
            j = rng.randrange(len(body))
            body = body[:j] + bytes([rng.randrange(256)]) + body[j + 1:]
            desc.append('body-byte-flip')
        elif k == 13:
            head_lines.insert(1, b'Transfer-Encoding: ' + tape.choice((b'chunked', b'gzip', b'chunked, chunked', b'identity', b'\xff'), 'mut.te'))
            desc.append('transfer-encoding')
        elif k == 14:
            n = tape.choice((1, 7, 100, 5000), 'mut.rawlen')
            return bytes(rng.randrange(256) for _ in range(n)), ['raw-random-bytes:%d' % n]
        elif k == 15:
            head_lines = [head_lines[0]] + [b'X-%d: v' % i for i in range(1500)] + head_lines[1:]
            desc.append('many-headers(>32KiB)')
        elif k == 16:
            head_lines.insert(1, b'Location: ' + tape.choice((b'http://[bad', b'//', b'http://\x00/', b'\xff\xfe', b'http://a.test:99999/', b'javascript:alert(1)',
                                                              b'http://' + b'h' * 300 + b'.test/', b'http://a.test/' + b'p' * LONG), 'mut.loc'))
            if head_lines[0].startswith(b'HTTP/1.1 200'):
                head_lines[0] = b'HTTP/1.1 302 Found'
            desc.append('odd-location')
        elif k == 17:
            head_lines.insert(1, b'Set-Cookie: ' + tape.choice((b'a=b; Domain=..; Path=\x00', b'=; =;', b'a' * 5000 + b'=b', b'\xff=\xfe', b'a=b; Expires=garbage; Max-Age=xyz',
                                                                b'a=b; Domain=' + b'd' * 300), 'mut.cookie'))
            desc.append('odd-set-cookie')
        elif k == 18:
            head_lines = [ln for ln in head_lines if not ln.lower().startswith(b'content-type')]
            head_lines.insert(1, b'Content-Type: ' + tape.choice(ODD_CONTENT_TYPES, 'mut.ctype'))
            desc.append('odd-content-type')
        elif k == 19:
            head_lines.insert(1, b'Refresh: ' + tape.choice((b'0; url=http://[bad', b'garbage', b'0;url=', b'999999999999999999999;url=/x', b'0; url=\xff\xfe'), 'mut.refresh'))
            desc.append('odd-refresh')
        elif k == 20:
            head_lines.insert(1, b'Content-Disposition: ' + tape.choice((b'attachment; filename="../../etc/passwd"', b'attachment; filename=\x00', b'attachment; filename*=UTF-8\'\'%ff%fe',
                                                                         b'attachment; filename=' + b'f' * 400), 'mut.cd'))
            desc.append('odd-content-disposition')
        elif k == 21:
            head_lines.insert(1, b'WWW-Authenticate: ' + tape.choice((b'Basic', b'Digest \xff', b'', b'Basic realm="' + b'r' * 3000), 'mut.auth'))
            if tape.chance(1, 2, 'mut.401'):
                head_lines[0] = b'HTTP/1.1 401 Unauthorized'
            desc.append('odd-www-authenticate')
        elif k == 22:
            head_lines.insert(1, b'Last-Modified: ' + tape.choice((b'garbage', b'Mon, 99 Foo 99999 99:99:99 GMT', b'\xff', b'0'), 'mut.lm'))
            desc.append('odd-last-modified')
        else:
            cut = rng.randrange(1, max(2, len(resp.message)))
            return resp.message[:cut], ['truncated@%d' % cut]
    return b'\r\n'.join(head_lines) + body, desc


HOSTILE_HTML = [
    b'<html><a href="http://[bad">x</a><a href="http://a.test:99999/">y</a><img src="//"><a href="\x00">z</a></html>',
    b'<html><head><base href="http://[::1"><meta http-equiv="refresh" content="0;url=http://[x"></head><body><a href="rel">r</a></body></html>',
    b'<a href="' + b'A' * 70000 + b'">long</a>',
    b'<' * 5000,
    b'<html>' + b'<div>' * 3000 + b'deep',
    b'\xff\xfe<\x00h\x00t\x00m\x00l\x00>\x00',
    b'<html><a href="&#xD800;&#xDFFF;&#1114112;">surrogates</a><a href="http://\xe2\x98\x83.\xff/">idn</a></html>',
    b'<html><script>var u = "http://[bad/" + "\\x"; location="http:///"; url("x"</script><style>@import url(http://[bad);a{background:url(\'\\0\')}</style></html>',
    b'<html><a href="http://a.test/%">pct</a><a href="http://a.test/%zz%">pct2</a><a href="mailto:x">m</a><a href="http://user:pa:ss@@a.test/">ui</a></html>',
    b'<html><meta charset="utf-7"><meta charset="undefined"><a href="+ADw-script+AD4-">x</a></html>',
    b'<html><form action="http://[bad"><input name="\x00"></form><frame src="ht\ttp://a.test/"><iframe src=" http://a.test/ \n"></iframe></html>',
    b'<?xml version="1.0" encoding="bogus"?><html xmlns="x"><a href="]]>"/></html>',
    b'<html><a href="http://a.test/\r\nInjected: header">crlf</a><img srcset="a 1x, http://[bad 2x,, ,"></html>',
]
HOSTILE_CSS = [b'@import url(http://[bad); a { background: url( }', b'\xff\xfe@\x00i\x00', b'url(' * 10000, b'a{background:url("' + b'x' * 70000 + b'")}',
               b'@charset "bogus"; @import "\\110000";', b'/*' * 5000]
HOSTILE_JS = [b'var a = "http://[bad/"; var b = "//"; var c = "http://a.test:99999/x.html";', b'"' * 9999, b'"http://' + b'a' * 70000 + b'"',
              b'\xff\xfe"\x00h\x00', b'var x = "\\u{110000} \\xZZ http://a.test/\\";', b'{"url":"http:\\/\\/[bad\\/", "a":"\\ud800"}']
# links in schemes that carry their own syntax (data: media types, scheme-only, odd ports) in positions every scraper reads
_ODD_LINKS = [b'data:a/b/c,x/', b'data:,/', b'data:/,/', b'data:;base64,/', b'data:text/html;charset==,/', b'javascript:/', b'mailto:/x/', b'http:/', b'http:', b'://x/',
              b'http://a.test:/x/', b'http://a.test:0x50/', b'//:80/', b'/\\a.test/', b'http://a.test/\\ud800/', b'ftp://a.test:99999/', b'http://%zz/', b'http://a..test./x/', b'file:///etc/', b'/%00/',
              b'/item/{id}/view#!tab=1', b'/x{1}/#!a', b'/y}/#!b', b'/z/?q={0}#!c=%s', b'/s/?sid=0123456789abcdef0123456789abcdef&PHPSESSID={}']
# names that no file system takes: more directory levels than os.makedirs can recurse through, a path beyond PATH_MAX made of
# components that each fit (the per-component limit of --max-filename-length does not bound the whole path)
_DEEP_LINKS = [b'/deep/' + b'd/' * 1200 + b'x.html', b'/long/' + (b'c' * 150 + b'/') * 40 + b'y.html']
HOSTILE_HTML += [b'<html>' + b''.join(b'<a href="' + l + b'">deep</a>' for l in _DEEP_LINKS) + b'</html>']
# elements whose attributes refer to each other: <object codebase=... data=... archive=...>, <applet code=... codebase=...>
HOSTILE_HTML += [b'<html><object codebase="data" data="x"></object><object codebase="http://[bad" data="y" archive="a b c" classid="z"></object>'
                 b'<applet codebase="archive" code="c.class" archive="q"></applet><object data="" codebase=""></object>'
                 b'<object codebase="/hostile/" data="obj.bin"></object><a href="x." rel="NoFollow">dot</a><a href="trailing ">sp</a></html>']
# event-handler attributes and javascript: pseudo-links (handed from the HTML scraper to the JavaScript scraper - when there is one)
HOSTILE_HTML += [b'<html><body onload="init(\'/a.html\')"><a href="#" onclick="location=\'/b.html\'; return false">x</a>'
                 b'<div onmouseover="show(\"/img/i0.png\")" onkeydown="k(\'\\x\')">y</div><a href="javascript:go(\'/d1/\')">z</a>'
                 b'<img src="x.png" onerror="this.src=\'http://[bad/\'"><form onsubmit="return \x00"></form></body></html>']
HOSTILE_JS += [b'var links = [' + b', '.join(b'"' + l + b'"' for l in _ODD_LINKS) + b'];']
HOSTILE_HTML += [b'<html>' + b''.join(b'<a href="' + l + b'">x</a><img src="' + l + b'" srcset="' + l + b' 2x"><div data-href="' + l + b'"></div>' for l in _ODD_LINKS) + b'</html>']
HOSTILE_CSS += [b''.join(b'@import url("' + l + b'"); a { background: url(' + l + b') }\n' for l in _ODD_LINKS)]
HOSTILE_SITEMAP = [b'<?xml version="1.0"?><urlset><url><loc>http://[bad</loc></url><url><loc>\x00</loc></url></urlset>',
                   b'<?xml version="1.0" encoding="bogus"?><urlset>', b'<urlset>' + b'<url><loc>' * 3000, b'\x1f\x8b\x08\x00garbage-not-gzip',
                   b'<?xml version="1.0"?><!DOCTYPE x [<!ENTITY a "&a;&a;">]><urlset><url><loc>&a;</loc></url></urlset>',
                   b'<sitemapindex><sitemap><loc>http://a.test:99999/s.xml</loc></sitemap></sitemapindex>']
HOSTILE_ROBOTS = [b'\xff\xfe\x00', b'User-agent: *\nDisallow: /\xff\nAllow: \x00', b'User-agent' * 20000, b'Disallow: /' + b'x' * 70000,
                  b'User-agent: *\r\nCrawl-delay: abc\r\nSitemap: http://[bad\r\nDisallow: *?*$$', b'<html>not robots</html>', b'User-agent: \nDisallow\n:\n']


def hostile_document(tape, kind):
    pool = {'html': HOSTILE_HTML, 'css': HOSTILE_CSS, 'js': HOSTILE_JS, 'sitemap': HOSTILE_SITEMAP, 'robots': HOSTILE_ROBOTS}[kind]
    doc = pool[tape.draw(len(pool), 'hostile.doc')]
    if tape.chance(1, 3, 'hostile.flip') and doc:
        rng = tape.subrng('hostile.rng')
        b = bytearray(doc)
        for _ in range(1 + rng.randrange(6)):
            b[rng.randrange(len(b))] = rng.randrange(256)
        doc = bytes(b)
    return doc
