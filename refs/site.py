"""Site graph generator that knows the canonical identity of every URL it emits in several spellings
(DESIGN Appendix B). No wpull imports: oracles compare canonical URLs only.

A Site has hosts and resources. A resource is identified by its canonical URL
    scheme://host[:port]/path[?query]
Resources: 'page' (HTML with links + inline objects), 'css', 'bin', 'redirect', 'error'.
"""
import posixpath

DEFAULT_PORT = {'http': 80, 'https': 443, 'ftp': 21}


class Origin:
    def __init__(self, scheme, host, port, ip):
        self.scheme, self.host, self.port, self.ip = scheme, host, port, ip

    @property
    def netloc(self):
        if self.port == DEFAULT_PORT[self.scheme]:
            return self.host
        return '%s:%d' % (self.host, self.port)

    @property
    def prefix(self):
        return '%s://%s' % (self.scheme, self.netloc)

    def key(self):
        return (self.scheme, self.host, self.port)


class Resource:
    def __init__(self, origin, path, kind, query=None):
        self.origin = origin
        self.path = path            # canonical absolute path
        self.query = query
        self.kind = kind            # page | css | bin | redirect | error | robots | sitemap
        self.links = []             # [(Resource or raw str, spelling str)] linked pages (a href)
        self.inlines = []           # [(Resource, spelling, tag)] inline objects
        self.redirect_to = None     # Resource
        self.redirect_code = 302
        self.redirect_spelling = None
        self.nofollow = False
        self.status = 200
        self.body = None
        self.content_type = None
        self.extra_html = ''
        self.base_href = None

    @property
    def target(self):
        return self.path + ('?' + self.query if self.query else '')

    @property
    def url(self):
        return self.origin.prefix + self.target

    @property
    def dir(self):
        return self.path.rsplit('/', 1)[0] + '/'

    def __repr__(self):
        return '<%s %s>' % (self.kind, self.url)


def spell(tape, src, dst, noise=True):
    """Render a reference from resource `src` to resource `dst` in a drawn spelling that every RFC 3986
    normaliser maps back to dst's canonical URL."""
    if src is dst and noise and src.base_href is None and tape.chance(1, 3, 'sp.fragonly'):
        return tape.choice(('#top', '#', '#a/b'), 'sp.fragonly.k')       # a reference to a part of the document itself
    path = dst.path
    q = ('?' + dst.query) if dst.query else ''
    frag = ''
    if noise and tape.chance(1, 6, 'sp.frag'):
        # (a fragment is opaque: slashes, dot segments or a question mark inside it name nothing)
        frag = ('#f0', '#f1', '#f2', '#s/../other.html', '#a/./b/', '#?x=1', '#/')[tape.draw(7, 'sp.frag.n')]
    if noise and tape.chance(1, 6, 'sp.dot'):
        segs = path.split('/')
        # insert './' or 'zz/../' before a drawn segment (never changes the resolved path)
        i = 1 + tape.draw(max(1, len(segs) - 1), 'sp.dot.i')
        segs.insert(i, tape.choice(('.', 'zz/..', '.', 'zz/..', 'zz/%2E%2E', '%2e', 'zz/.%2e'), 'sp.dot.k'))
        path = '/'.join(segs)
    if noise and path.endswith('/') and not q and tape.chance(1, 8, 'sp.dot.trailing'):
        path += tape.choice(('.', 'zz/..', './.'), 'sp.dot.trailing.k')       # a trailing dot segment names the directory: '/d1/.' is '/d1/'
    same_origin = src is not None and src.origin.key() == dst.origin.key()
    form = tape.draw(6, 'sp.form') if noise else 0
    if same_origin and form in (1, 2):
        return path + q + frag                                     # root-relative
    if same_origin and form == 3:
        # relative to the document's base: its own directory, or the directory its <base href> names
        base_dir = src.dir if src.base_href is None else src.base_href
        rel = posixpath.relpath(dst.path, base_dir.rstrip('/') or '/')
        if dst.path.endswith('/') and not rel.endswith('/'):
            rel += '/'
        if rel in ('.', './'):
            rel = './'
        if not rel.startswith('../..'):                            # keep it simple
            return rel + q + frag
    if src is not None and src.origin.scheme == dst.origin.scheme and form == 4:
        return '//' + _netloc(tape, dst.origin, noise) + path + q + frag   # scheme-relative
    scheme = dst.origin.scheme
    if noise and tape.chance(1, 8, 'sp.scheme'):
        scheme = scheme.upper()
    return '%s://%s%s%s%s' % (scheme, _netloc(tape, dst.origin, noise), path, q, frag)


def _netloc(tape, origin, noise):
    host = origin.host
    if noise and tape.chance(1, 8, 'sp.host'):
        host = host.upper()
    if origin.port != DEFAULT_PORT[origin.scheme]:
        return '%s:%d' % (host, origin.port)
    if noise and tape.chance(1, 8, 'sp.port'):
        return '%s:%d' % (host, origin.port)
    return host


def render_html(res):
    head = ['<title>%s</title>' % res.path]
    if res.base_href:
        head.append('<base href="%s">' % res.base_href)
    if res.nofollow:
        head.append('<meta name="robots" content="nofollow">')
    body = []
    for dst, sp, tag in res.inlines:
        if tag == 'css':
            head.append('<link rel="stylesheet" href="%s">' % sp)
        elif tag in ('css:StyleSheet', 'css:STYLESHEET', 'css:alternate StyleSheet'):
            head.append('<link rel="%s" href="%s">' % (tag[4:], sp))       # link types are ASCII case-insensitive (HTML 4.6.7)
        elif tag == 'script':
            head.append('<script src="%s"></script>' % sp)
        elif tag == 'iframe':
            body.append('<iframe src="%s"></iframe>' % sp)
        elif tag == 'embed':
            body.append('<embed src="%s">' % sp)
        elif tag == 'input':
            body.append('<form><input type="image" src="%s"></form>' % sp)
        else:
            body.append('<img src="%s" alt="i">' % sp)
    for i, (dst, sp) in enumerate(res.links):
        if i % 5 == 4:
            body.append('<map name="m%d"><area shape="rect" coords="0,0,1,1" href="%s" alt="a"></map>' % (i, sp))
        else:
            body.append('<a href="%s">link</a>' % sp)
    if getattr(res, 'omit_html_tag', False) and not res.inlines and not res.base_href:
        # (only pages whose every reference is an ordinary link: a document without the start tag is also read by wpull's
        # JavaScript scraper, which takes every quoted URL for a link - for embedded objects that is a reading of its own)
        # the html element's tags are optional (HTML 8.1.2.4); an inline script repeats the first link of the page as a string
        # (a page's declaration - nofollow - holds for the whole document, whichever scrapers look at it)
        if res.links:
            head.append('<script>var first = "%s"; function go() { location = first; }</script>' % res.links[0][1].replace('"', '%22'))
        return ('<!DOCTYPE html>\n<head>%s</head>\n<body>\n%s\n%s</body>\n'
                % (''.join(head), '\n'.join(body), res.extra_html)).encode('utf-8')
    return ('<!DOCTYPE html>\n<html><head>%s</head>\n<body>\n%s\n%s</body></html>\n'
            % (''.join(head), '\n'.join(body), res.extra_html)).encode('utf-8')


def render_css(res):
    out = ['body { color: black }']
    for dst, sp, tag in res.inlines:
        if tag == 'import':
            out.insert(0, '@import url("%s");' % sp)
            continue
        out.append('.x%d { background: url("%s") }' % (len(out), sp))
    return '\n'.join(out).encode('utf-8')


class Site:
    def __init__(self):
        self.origins = []
        self.resources = {}       # (origin key, target) -> Resource
        self.order = []

    def add_origin(self, scheme, host, port=None, ip=None):
        o = Origin(scheme, host, port or DEFAULT_PORT[scheme], ip or '10.1.0.%d' % (len(self.origins) + 1))
        self.origins.append(o)
        return o

    def add(self, origin, path, kind, query=None):
        r = Resource(origin, path, kind, query)
        k = (origin.key(), r.target)
        if k in self.resources:
            return self.resources[k]
        self.resources[k] = r
        self.order.append(r)
        return r

    def lookup(self, origin_key, target):
        return self.resources.get((origin_key, target))

    def by_url(self, url):
        for r in self.order:
            if r.url == url:
                return r
        return None

    def finalize(self):
        for r in self.order:
            if r.body is not None:
                continue
            if r.kind == 'page':
                r.body = render_html(r)
                r.content_type = 'text/html; charset=utf-8'
            elif r.kind == 'css':
                r.body = render_css(r)
                r.content_type = 'text/css'
            elif r.kind == 'bin':
                r.body = b'\x89PNG\r\n\x1a\n' + r.path.encode()
                r.content_type = 'image/png'
            elif r.kind == 'redirect':
                r.body = b'moved'
                r.content_type = 'text/plain'
            else:
                r.body = b'error'
                r.content_type = 'text/plain'


PAGE_PATHS = ['/', '/index.html', '/a.html', '/b.html', '/d1/', '/d1/p1.html', '/d1/p2.html', '/d1/d2/', '/d1/d2/p3.html',
              '/d1/d2/p4.html', '/other/', '/other/q.html', '/d1/x%20y.html', '/UP/Case.html',
              '/d10/s.html', '/d1-old/t.html', '/other2/u.html', '/d1.html',
              '/A.html', '/d1/P1.html', '/up/case.html', '/caf%C3%A9/m.html',
              '/list.jsp', '/d1/view.jsp']         # HTML pages whose names make other scrapers look at them too ('.js' in the path)    # differ from others by letter case only: distinct URLs


def gen_site(tape, nhosts=1, npages=6, with_requisites=True, with_redirects=True, start_in_subdir=False, foreign=False,
             cross_host_links=True, main_port=None, iframe_chance=(1, 8)):
    """Generate a site graph. Returns (site, start resources)."""
    site = Site()
    main = site.add_origin('http', 'site.test', main_port)
    hosts = [main]
    if nhosts >= 2:
        hosts.append(site.add_origin('http', 'other.test'))
    if nhosts >= 3:
        hosts.append(site.add_origin('http', 'third.test', 8080))
    pages = []
    # pages on the main host
    paths = list(PAGE_PATHS)
    chosen = []
    if start_in_subdir:
        chosen.append('/d1/')
    else:
        chosen.append('/')
    while len(chosen) < npages and paths:
        p = paths.pop(tape.draw(len(paths), 'site.path'))
        if p not in chosen:
            chosen.append(p)
    for i, p in enumerate(chosen):
        q = None
        if i > 0 and tape.chance(1, 8, 'site.query'):
            q = 'id=%d' % tape.draw(3, 'site.query.n')
        pages.append(site.add(main, p, 'page', q))
    for h in hosts[1:]:
        for i in range(tape.between(1, 2, 'site.otherpages')):
            pages.append(site.add(h, ('/', '/x.html', '/y/z.html')[i], 'page'))
    assets = []
    if with_requisites:
        for i in range(tape.between(1, 3, 'site.nassets')):
            kind = tape.choice(('bin', 'css', 'bin'), 'site.asset.kind')
            host = hosts[tape.draw(len(hosts), 'site.asset.host')] if tape.chance(1, 4, 'site.asset.foreign') else main
            ext = 'css' if kind == 'css' else 'png'
            assets.append(site.add(host, '/%s/i%d.%s' % (tape.choice(('img', 'd1/img', 'static'), 'site.asset.dir'), i, ext), kind))
        # css -> image
        imgs = [a for a in assets if a.kind == 'bin']
        for a in assets:
            if a.kind == 'css' and imgs and tape.chance(2, 3, 'site.css.url'):
                dst = imgs[tape.draw(len(imgs), 'site.css.dst')]
                a.inlines.append((dst, spell(tape, a, dst), 'url'))
        # a chain of style sheets importing each other (embedded objects 2..5 levels below a page)
        if tape.chance(1, 3, 'site.csschain'):
            chain = [site.add(main, '/static/c%d.css' % i, 'css') for i in range(tape.between(2, 4, 'site.csschain.n'))]
            for a, b in zip(chain, chain[1:]):
                a.inlines.append((b, spell(tape, a, b), 'import'))
            if imgs:
                chain[-1].inlines.append((imgs[0], spell(tape, chain[-1], imgs[0]), 'url'))
            assets.append(chain[0])
            site.css_chain = chain
    redirects = []
    if with_redirects:
        for i in range(tape.between(0, 2, 'site.nredirects')):
            r = site.add(main, '/r%d' % i, 'redirect')
            same = [p for p in pages if p.origin.key() == main.key()]       # same-host redirects only
            r.redirect_to = same[tape.draw(len(same), 'site.redir.dst')]
            r.redirect_code = tape.choice((301, 302, 303, 307, 308), 'site.redir.code')
            r.redirect_spelling = spell(tape, r, r.redirect_to)
            redirects.append(r)
    # some documents declare a base of their own (it holds for that document only)
    # (wpull, like other crawlers, also takes the href of <base> for a link: the base is always a directory page of the site,
    # and the reference knows it as a link of the document)
    for p in pages:
        if tape.chance(1, 6, 'site.omit_html_tag'):
            p.omit_html_tag = True
    for p in pages:
        if tape.chance(1, 8, 'site.base_href'):
            dirs = [d for d in pages if d.path.endswith('/') and d.query is None and d.origin.key() == p.origin.key()]
            if dirs:
                bd = dirs[tape.draw(len(dirs), 'site.base_href.dir')]
                p.base_href = bd.path
                p.links.append((bd, bd.path))
    if with_redirects and tape.chance(1, 15, 'site.many_redirects'):
        # more redirects on one host than the per-host connection limit (6), with empty bodies (Content-Length: 0)
        for i in range(tape.between(7, 9, 'site.many_redirects.n')):
            rr = site.add(main, '/mr%d' % i, 'redirect')
            same = [p for p in pages if p.origin.key() == main.key()]
            rr.redirect_to = same[tape.draw(len(same), 'site.mredir.dst')]
            rr.redirect_code = tape.choice((301, 302, 303, 307, 308), 'site.mredir.code')
            rr.redirect_spelling = spell(tape, rr, rr.redirect_to)
            rr.body = b''
            rr.content_type = 'text/plain'
            redirects.append(rr)
            pages[0].links.append((rr, spell(tape, pages[0], rr)))
    # links
    frames = []
    everything = pages + redirects
    for p in pages:
        n = tape.between(0, 4, 'site.nlinks')
        for _ in range(n):
            dst = everything[tape.draw(len(everything), 'site.link.dst')]
            if not cross_host_links and dst.origin.key() != p.origin.key():
                continue
            p.links.append((dst, spell(tape, p, dst)))
            if tape.chance(1, 6, 'site.link.dup'):
                p.links.append((dst, spell(tape, p, dst)))      # duplicate link in another spelling
        if tape.chance(1, 6, 'site.selflink'):
            p.links.append((p, spell(tape, p, p)))
        for a in assets:
            if tape.chance(1, 3, 'site.inline'):
                p.inlines.append((a, spell(tape, p, a), tape.choice(('css', 'css', 'css', 'css:StyleSheet', 'css:STYLESHEET', 'css:alternate StyleSheet'), 'site.css.rel') if a.kind == 'css' else tape.choice(('img', 'img', 'embed', 'input'), 'site.inline.tag')))
        if tape.chance(iframe_chance[0], iframe_chance[1], 'site.iframe'):
            # a document shown in a frame: an embedded object that is an HTML page with links of its own. It is reachable
            # through the frame only (a page that is linked as well as framed would be at the mercy of which discovery
            # record the table keeps, C01-K3)
            # (the name may lack an extension and the embedding element may be one that usually shows pictures: what the
            # object IS is decided by what the server sends, and its links count like those of any framed document)
            fr = site.add(p.origin, p.dir + ('frame%d.html' if tape.chance(2, 3, 'site.iframe.ext') else 'view%d') % len(site.order), 'page')
            for _ in range(tape.between(0, 2, 'site.iframe.nlinks')):
                dst = pages[tape.draw(len(pages), 'site.iframe.link')]
                # (often a page that a sibling of the framing page links to: reachable at one depth through the sibling and at a
                # greater one through the frame)
                nephews = [d for q in pages if q is not p for d, _ in q.links if not isinstance(d, str) and d.kind == 'page' and d is not p]
                if nephews and iframe_chance[1] < 8 and tape.chance(2, 3, 'site.iframe.nephew'):
                    dst = nephews[tape.draw(len(nephews), 'site.iframe.nephew.which')]
                if cross_host_links or dst.origin.key() == fr.origin.key():
                    fr.links.append((dst, spell(tape, fr, dst)))
            if tape.chance(1, 2, 'site.iframe.leaf'):
                leaf = site.add(p.origin, p.dir + 'only-via-frame%d.html' % len(site.order), 'page')       # reachable through the framed document only
                fr.links.append((leaf, spell(tape, fr, leaf)))
            p.inlines.append((fr, spell(tape, p, fr), tape.choice(('iframe', 'iframe', 'img'), 'site.iframe.tag')))
            frames.append((p, fr))
            if a.kind == 'bin' and tape.chance(1, 6, 'site.link_to_asset'):
                # the same object may be linked (<a>) as well as embedded. Only leaf objects: a style sheet reached both
                # ways would make everything below it depend on which record the table happened to keep (C01-K2/K3)
                p.links.append((a, spell(tape, p, a)))
    # a framed document may link to what a LATER sibling of its framing page links to: that page is then reachable at one depth
    # through the sibling and at a greater one through the frame, and the frame is found first
    if iframe_chance[1] < 8:
        for p, fr in frames:
            later = [d for q in pages[pages.index(p) + 1:] for d, _ in q.links if not isinstance(d, str) and d.kind == 'page' and d is not p and d is not fr]
            if later and tape.chance(2, 3, 'site.iframe.nephew2'):
                d = later[tape.draw(len(later), 'site.iframe.nephew2.which')]
                if cross_host_links or d.origin.key() == fr.origin.key():
                    fr.links.append((d, spell(tape, fr, d)))
    # make sure the start page links somewhere
    start = pages[0]
    if not start.links and len(pages) > 1:
        dst = pages[1]
        start.links.append((dst, spell(tape, start, dst)))
    starts = [start]
    return site, starts, pages, assets, redirects


def canon(url):
    """Canonical identity of a URL spelled by this generator (independent mini-normaliser, RFC 3986 6.2.2/6.2.3):
    lower-case scheme and host, default port removed, dot segments resolved, fragment dropped."""
    import re
    m = re.match(r'^([A-Za-z][A-Za-z0-9+.-]*)://([^/?#]*)([^?#]*)(\?[^#]*)?(#.*)?$', url)
    if not m:
        return url
    scheme, netloc, path, query, frag = m.groups()
    scheme = scheme.lower()
    netloc = netloc.lower()
    if '@' in netloc:
        netloc = netloc.rsplit('@', 1)[1]
    host, port = netloc, None
    mm = re.match(r'^(.*):(\d*)$', netloc)
    if mm and not netloc.endswith(']'):
        host, port = mm.group(1), mm.group(2)
    if port in ('', None) or int(port) == DEFAULT_PORT.get(scheme):
        netloc = host
    else:
        netloc = '%s:%d' % (host, int(port))
    p = resolve_dot_segments(path or '/')
    return '%s://%s%s%s' % (scheme, netloc, p, query or '')


def resolve_dot_segments(path):
    """RFC 3986 5.2.4 / 6.2.2.2: '.' is unreserved, so '%2E' is the same octet: '%2e%2E' is a dot segment like '..'."""
    import re
    out = []
    segs = path.split('/')[1:]
    last = ''
    for seg in segs:
        plain = re.sub(r'%2[eE]', '.', seg)
        last = plain
        if plain == '.':
            continue
        if plain == '..':
            if out:
                out.pop()
            continue
        out.append(seg)
    p = '/' + '/'.join(out)
    if last in ('.', '..') and not p.endswith('/'):
        p += '/'
    return p
