"""Strict WARC/1.0 reader and CDX reader (reference, no wpull imports).

parse_warc_file(data: bytes, compressed: bool) -> (records, errors)
  each record: dict(offset, length, version, fields[(name,value)], block, raw)
  .gz : exactly one gzip member per record, nothing between members
"""
import base64
import hashlib
import re
import zlib

_FIELD_NAME = re.compile(rb'^[!#$%&\'*+\-.^_`|~0-9A-Za-z]+$')


class Rec:
    def __init__(self):
        self.offset = 0           # offset in the (possibly compressed) file
        self.length = 0           # length in the (possibly compressed) file
        self.fields = []
        self.block = b''
        self.errors = []

    def get(self, name, default=None):
        name = name.lower()
        for n, v in self.fields:
            if n.lower() == name:
                return v
        return default

    def get_all(self, name):
        name = name.lower()
        return [v for n, v in self.fields if n.lower() == name]


def parse_record(data, pos=0):
    """Parse one uncompressed record at data[pos:]. Returns (Rec, next_pos) or raises ValueError."""
    rec = Rec()
    start = pos
    eol = data.find(b'\r\n', pos)
    if eol < 0:
        raise ValueError('no version line at %d' % pos)
    if data[pos:eol] != b'WARC/1.0':
        raise ValueError('bad version line %r at %d' % (data[pos:eol][:40], pos))
    pos = eol + 2
    while True:
        eol = data.find(b'\r\n', pos)
        if eol < 0:
            raise ValueError('unterminated header at %d' % pos)
        line = data[pos:eol]
        pos = eol + 2
        if line == b'':
            break
        if line[:1] in (b' ', b'\t'):
            # continuation line (allowed by WARC 1.0 grammar) - named fields must not rely on it; report
            if not rec.fields:
                raise ValueError('continuation without a field at %d' % pos)
            n, v = rec.fields[-1]
            rec.fields[-1] = (n, v + ' ' + line.strip().decode('utf-8', 'replace'))
            rec.errors.append('folded-field:' + n)
            continue
        if b':' not in line:
            raise ValueError('header line without colon %r at %d' % (line[:60], pos))
        n, v = line.split(b':', 1)
        if not _FIELD_NAME.match(n):
            raise ValueError('bad field name %r' % (n[:60],))
        if b'\n' in line or b'\r' in line:
            raise ValueError('bare CR/LF in header line %r' % (line[:60],))
        rec.fields.append((n.decode('ascii'), v.strip().decode('utf-8', 'replace')))
    cl = rec.get_all('Content-Length')
    if len(cl) != 1 or not re.fullmatch(r'\d+', cl[0]):
        raise ValueError('Content-Length missing/duplicated/invalid: %r' % (cl,))
    n = int(cl[0])
    if len(data) < pos + n + 4:
        raise ValueError('record at %d: block of %d bytes + CRLFCRLF does not fit (have %d)' % (start, n, len(data) - pos))
    rec.block = data[pos:pos + n]
    pos += n
    if data[pos:pos + 4] != b'\r\n\r\n':
        raise ValueError('record at %d: block (Content-Length %d) is not followed by CRLF CRLF but %r' % (start, n, data[pos:pos + 8]))
    pos += 4
    return rec, pos


def parse_warc_file(data, compressed):
    records = []
    errors = []
    if not compressed:
        pos = 0
        while pos < len(data):
            try:
                rec, nxt = parse_record(data, pos)
            except ValueError as e:
                errors.append('offset %d: %s' % (pos, e))
                break
            rec.offset = pos
            rec.length = nxt - pos
            records.append(rec)
            pos = nxt
        return records, errors
    pos = 0
    while pos < len(data):
        d = zlib.decompressobj(16 + zlib.MAX_WBITS)
        try:
            raw = d.decompress(data[pos:])
            raw += d.flush()
        except zlib.error as e:
            errors.append('offset %d: gzip error %s' % (pos, e))
            break
        if not d.eof:
            errors.append('offset %d: truncated gzip member' % pos)
            break
        used = len(data) - pos - len(d.unused_data)
        try:
            rec, nxt = parse_record(raw, 0)
            if nxt != len(raw):
                errors.append('offset %d: gzip member holds %d bytes after one record' % (pos, len(raw) - nxt))
        except ValueError as e:
            errors.append('offset %d: %s' % (pos, e))
            break
        rec.offset = pos
        rec.length = used
        records.append(rec)
        pos += used
    return records, errors


def sha1_b32(data):
    return base64.b32encode(hashlib.sha1(data).digest()).decode()


def http_header_end(block):
    """Offset just after the first empty line of an HTTP message, or None."""
    m = re.search(rb'\r?\n\r?\n', block)
    return m.end() if m else None


def parse_cdx(text):
    """Returns (legend list, rows list of dict, errors)."""
    lines = text.split('\n')
    errors = []
    if not lines or not lines[0].startswith(' CDX '):
        return [], [], ['missing CDX legend line: %r' % (lines[0][:60] if lines else '')]
    legend = lines[0].strip().split(' ')[1:]
    rows = []
    for i, ln in enumerate(lines[1:], 2):
        if ln == '':
            continue
        if ln.startswith(' CDX '):
            errors.append('line %d: repeated legend' % i)
            continue
        parts = ln.split(' ')
        if len(parts) != len(legend):
            errors.append('line %d: %d fields, legend has %d: %r' % (i, len(parts), len(legend), ln[:120]))
            continue
        rows.append(dict(zip(legend, parts)))
    return legend, rows, errors
