"""Reference scope predicate (DESIGN Appendix A): an independent restatement of each scope option from
wpull's documentation. No wpull imports.

passes(url, rec, opts, own_hosts) -> (bool, [failed rule names])
  url  : dict(scheme, host, port, path, query, url)
  rec  : dict(level, inline_level, parent (url dict or None), root (url dict or None), try_count)
  opts : dict, see DEFAULTS
"""
import fnmatch
import re

DEFAULTS = {
    'recursive': False, 'level': 5, 'page_requisites': False, 'page_requisites_level': 5, 'no_parent': False,
    'accept_regex': None, 'reject_regex': None, 'span_hosts': False, 'span_hosts_allow': (),
    'domains': None, 'exclude_domains': None, 'hostnames': None, 'exclude_hostnames': None,
    'include_directories': None, 'exclude_directories': None, 'accept': None, 'reject': None,
    'https_only': False, 'follow_ftp': False, 'tries': 20, 'strong_redirects': True,
}


def parse(url):
    m = re.match(r'^([a-z]+)://([^/:?#]+|\[[^\]]+\])(?::(\d+))?(/[^?#]*)?(?:\?([^#]*))?', url)
    scheme, host, port, path, query = m.groups()
    port = int(port) if port else {'http': 80, 'https': 443, 'ftp': 21}[scheme]
    return {'scheme': scheme, 'host': host, 'port': port, 'path': path or '/', 'query': query, 'url': url}


def _is_subdir(base_path, test_path, wildcards=False, base_is_dir=False):
    """Is test_path inside the directory of base_path (or inside base_path itself if it names a directory)?"""
    if base_is_dir:
        base_dir = base_path.rstrip('/') + '/'
    else:
        base_dir = base_path.rsplit('/', 1)[0] + '/' if not base_path.endswith('/') else base_path
    test_dir = test_path.rsplit('/', 1)[0] + '/' if not test_path.endswith('/') else test_path
    if wildcards:
        bp = [p for p in base_dir.split('/') if p]
        tp = [p for p in test_dir.split('/') if p]
        if len(tp) < len(bp):
            return False
        return all(fnmatch.fnmatchcase(t, b) for b, t in zip(bp, tp))
    return test_dir.startswith(base_dir)


def passes(url, rec, opts, own_hosts):
    o = dict(DEFAULTS)
    o.update(opts)
    failed = []
    inline = bool(rec.get('inline_level'))
    level = rec.get('level', 0)
    # 1 scheme
    if o['https_only']:
        if url['scheme'] != 'https':
            failed.append('https_only')
    elif url['scheme'] not in ('http', 'https', 'ftp'):
        failed.append('scheme')
    # 2 recursion
    if level != 0:
        if inline:
            if not o['page_requisites']:
                failed.append('recursive')
        elif not o['recursive']:
            failed.append('recursive')
    # 3 ftp from web
    parent = rec.get('parent')
    if url['scheme'] == 'ftp' and parent and parent['scheme'] in ('http', 'https') and not o['follow_ftp']:
        failed.append('follow_ftp')
    # 4 no-parent
    if o['no_parent'] and not inline:
        root = rec.get('root') or url
        fam = lambda s: 'http' if s in ('http', 'https') else s
        if fam(url['scheme']) == fam(root['scheme']) and url['host'] == root['host'] and \
                (url['scheme'] != root['scheme'] or url['port'] == root['port']):
            if not _is_subdir(root['path'], url['path']):
                failed.append('no_parent')
    # 5 domains (host names are case-insensitive, however the user typed them; an empty list item - 'a.test,' - names nothing)
    lst = lambda key: [x.lower() for x in (o[key] or ()) if x]
    if lst('domains') and not any(url['host'].endswith(d) for d in lst('domains')):
        failed.append('domains')
    if lst('exclude_domains') and any(url['host'].endswith(d) for d in lst('exclude_domains')):
        failed.append('domains')
    # 6 hostnames
    if lst('hostnames') and url['host'] not in lst('hostnames'):
        failed.append('hostnames')
    if lst('exclude_hostnames') and url['host'] in lst('exclude_hostnames'):
        failed.append('hostnames')
    # 7 tries
    if o['tries'] and not rec.get('try_count', 0) < o['tries']:
        failed.append('tries')
    # 8 depth
    if (o['level'] and o['recursive']) or o['page_requisites_level']:
        if o['page_requisites_level'] and inline and rec['inline_level'] > o['page_requisites_level']:
            failed.append('level')
        elif o['level'] and o['level'] != 'inf':
            if inline:
                if level > o['level'] + 2:
                    failed.append('level')
            elif level > o['level']:
                failed.append('level')
    # 9 regex
    if o['accept_regex'] and not re.search(o['accept_regex'], url['url']):
        failed.append('regex')
    if o['reject_regex'] and re.search(o['reject_regex'], url['url']):
        failed.append('regex')
    # 10 directories
    if o['include_directories'] and not any(_is_subdir(d, url['path'], True, True) for d in o['include_directories']):
        failed.append('directories')
    if o['exclude_directories'] and any(_is_subdir(d, url['path'], True, True) for d in o['exclude_directories']):
        failed.append('directories')
    # 11 filename suffix lists
    fname = url['path'].rsplit('/', 1)[-1]
    if fname:
        acc = o['accept'] and any(fnmatch.fnmatchcase(fname, '*' + p if not any(c in p for c in '*?[') else p) for p in o['accept'])
        rej = o['reject'] and any(fnmatch.fnmatchcase(fname, '*' + p if not any(c in p for c in '*?[') else p) for p in o['reject'])
        if o['accept'] and not acc:
            failed.append('filename')
        elif o['reject'] and rej:
            failed.append('filename')
    # 12 span hosts
    if not o['span_hosts'] and url['host'] not in own_hosts:
        ok = False
        if 'page-requisites' in o['span_hosts_allow'] and inline:
            ok = True
        if 'linked-pages' in o['span_hosts_allow'] and parent and parent['host'] in own_hosts:
            ok = True
        if not ok:
            failed.append('span_hosts')
    return (not failed), failed
