"""Reference FTP reply assembler (RFC 959 section 4.2) and command-line splitter. No wpull imports."""
import re


def split_commands(stream):
    """Split the control-connection byte stream at CRLF. Returns (lines, rest)."""
    parts = stream.split(b'\r\n')
    return parts[:-1], parts[-1]


def assemble_replies(stream):
    """Returns (replies, rest): replies = [(code, [raw lines without EOL])].
    A reply is one line 'ddd<SP>text' or a multi-line reply 'ddd-text' ... 'ddd<SP>text' with the SAME code."""
    replies = []
    pos = 0
    cur = None
    code = None
    while True:
        i = stream.find(b'\n', pos)
        if i < 0:
            break
        line = stream[pos:i + 1]
        pos = i + 1
        text = line.rstrip(b'\r\n')
        if cur is None:
            m = re.match(rb'^(\d{3})([ -])', text)
            if not m:
                # not a reply start: treated as a continuation-less junk line; reference gives up (callers do not generate this)
                replies.append((None, [text]))
                continue
            code = m.group(1)
            if m.group(2) == b' ':
                replies.append((int(code), [text]))
                code = None
            else:
                cur = [text]
        else:
            cur.append(text)
            if text[:4] == code + b' ':
                replies.append((int(code), cur))
                cur = None
                code = None
    return replies, stream[pos:] if cur is None else b'\n'.join(cur)
