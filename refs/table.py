"""Reference model of the URL table: a dict keyed by URL with a status state machine. No wpull imports."""

FIELDS = ('status', 'try_count', 'level', 'inline_level', 'link_type', 'priority', 'parent_url', 'root_url',
          'post_data', 'status_code', 'filename')


class ModelTable:
    def __init__(self):
        self.rows = {}        # url -> dict
        self.order = []       # insertion order (for information only)
        self.visits = {}      # url -> (warc_id, digest)
        self.hostnames = set()

    def add_many(self, batch):
        """batch: list of (url, props dict or None, data dict or None). Returns list of new urls."""
        new = []
        for url, props, data in batch:
            if url in self.rows:
                continue
            row = {'status': 'todo', 'try_count': 0, 'level': 0, 'inline_level': None, 'link_type': None,
                   'priority': 0, 'parent_url': None, 'root_url': None, 'post_data': None, 'status_code': None,
                   'filename': None}
            if props is not None:
                for k, v in props.items():
                    if v is not None:
                        row[k] = v
            else:
                row['root_url'] = url
                row['parent_url'] = url
            if data:
                for k, v in data.items():
                    if v is not None:
                        row[k] = v
            self.rows[url] = row
            self.order.append(url)
            new.append(url)
        return new

    def candidates(self, status, level=None, inclusive=False):
        out = []
        for u, r in self.rows.items():
            if r['status'] != status:
                continue
            if level is not None:
                if inclusive and not r['level'] <= level:
                    continue
                if not inclusive and not r['level'] < level:
                    continue
            out.append(u)
        return out

    def check_out(self, url):
        self.rows[url]['status'] = 'in_progress'

    def check_in(self, url, status, increment, result):
        r = self.rows.get(url)
        if r is None:
            return
        r['status'] = status
        if result:
            for k, v in result.items():
                if v is not None:
                    r[k] = v
        if increment:
            r['try_count'] += 1

    def update_one(self, url, **kw):
        r = self.rows.get(url)
        if r is None:
            return
        r.update(kw)

    def release(self):
        for r in self.rows.values():
            if r['status'] == 'in_progress':
                r['status'] = 'todo'

    def remove_many(self, urls):
        for u in urls:
            if u in self.rows:
                del self.rows[u]
                self.order.remove(u)

    def add_visits(self, visits):
        for url, wid, digest in visits:
            self.visits.setdefault(url, (wid, digest))

    def get_revisit_id(self, url, digest):
        v = self.visits.get(url)
        if v and v[1] == digest:
            return v[0]
        return None

    def snapshot(self):
        return {u: tuple(r[f] for f in FIELDS) for u, r in self.rows.items()}
