"""Reference HTTP/1.1 response decoder (RFC 7230 section 3.3.3). No wpull imports.

decode(wire, eof, method) -> Decoded
  wire   : bytes received on the connection starting at the first byte of the response
  eof    : True if the peer closed (FIN) after `wire`
  method : request method

Only streams for which RFC 7230 gives one answer are fed to it by the generators.
"""
import re
import zlib

NO_BODY_CODES = set(range(100, 200)) | {204, 304}

_STATUS = re.compile(rb'^(HTTP/\d\.\d)[ \t]+(\d{3})(?:[ \t]+([^\r\n]*))?[ \t]*$')


class Decoded:
    def __init__(self):
        self.complete = False        # the whole message was received
        self.error = None            # 'truncated-head' | 'truncated-body' | 'bad-...'
        self.version = None
        self.status = None
        self.reason = None
        self.fields = []             # [(lower-name, value)] in order, header section then trailers
        self.header_len = 0          # bytes of status line + header block incl. blank line
        self.framing = None          # 'none' | 'chunked' | 'length' | 'close'
        self.extent = None           # total bytes of the message (None if not determined)
        self.coded = b''             # body after removing transfer coding
        self.payload = None          # body after removing content coding (None if undecodable)
        self.payload_error = None
        self.keep_alive = None

    def field(self, name):
        name = name.lower()
        for n, v in self.fields:
            if n == name:
                return v
        return None


def split_lines_keepends(data):
    """Split into lines ending in LF (CRLF or bare LF). Returns (lines, rest)."""
    lines = []
    pos = 0
    while True:
        i = data.find(b'\n', pos)
        if i < 0:
            return lines, data[pos:]
        lines.append(data[pos:i + 1])
        pos = i + 1


def parse_field_lines(lines):
    """lines: header lines without the terminating blank line. Handles obs-fold."""
    out = []
    for raw in lines:
        line = raw.rstrip(b'\r\n')
        if line[:1] in (b' ', b'\t') and out:
            n, v = out[-1]
            out[-1] = (n, (v + ' ' + line.strip(b' \t').decode('latin-1')).strip())
            continue
        if b':' not in line:
            continue
        n, v = line.split(b':', 1)
        out.append((n.strip(b' \t').decode('latin-1').lower(), v.strip(b' \t').decode('latin-1')))
    return out


def decode_content(coded, encoding):
    enc = (encoding or '').strip().lower()
    if enc in ('', 'identity'):
        return coded, None
    try:
        if enc == 'gzip':
            if coded[:1] != b'\x1f':
                return coded, None      # not gzip at all: documented pass-through (decompression_test: test_gzip_decompressor_not_gzip)
            d = zlib.decompressobj(16 + zlib.MAX_WBITS)
            out = d.decompress(coded)
            out += d.flush()
            if not d.eof:
                return None, 'truncated gzip stream'
            return out, None
        if enc == 'deflate':
            for wbits in (zlib.MAX_WBITS, -zlib.MAX_WBITS):
                try:
                    d = zlib.decompressobj(wbits)
                    out = d.decompress(coded)
                    out += d.flush()
                    if not d.eof:
                        err = 'truncated deflate stream'
                        continue
                    return out, None
                except zlib.error as e:
                    err = str(e)
            return None, err
    except zlib.error as e:
        return None, str(e)
    return coded, None      # unknown coding: handed over as is


def decode(wire, eof, method='GET', interim=0):
    """interim: number of interim (1xx) header blocks the sender put before the final response (RFC 7231 6.2)."""
    d = Decoded()
    # ---- head
    lines, rest = split_lines_keepends(wire)
    head = []
    end = None
    pos = 0
    for ln in lines:
        pos += len(ln)
        if ln in (b'\r\n', b'\n'):
            end = pos
            break
        head.append(ln)
    if end is None:
        d.error = 'truncated-head'
        return d
    if not head:
        d.error = 'bad-empty-head'
        return d
    m = _STATUS.match(head[0].rstrip(b'\r\n'))
    if not m:
        d.error = 'bad-status-line'
        return d
    d.version = m.group(1).decode('latin-1')
    d.status = int(m.group(2))
    d.reason = (m.group(3) or b'').decode('latin-1').strip()
    d.fields = parse_field_lines(head[1:])
    d.header_len = end
    body = wire[end:]
    if interim > 0 and 100 <= d.status < 200 and d.status != 101:
        # an interim response: the answer to the request is what follows (RFC 7231 6.2)
        inner = decode(body, eof, method, interim - 1)
        inner.interim = getattr(inner, 'interim', 0) + 1
        if inner.header_len is not None:
            inner.header_len += end
        if inner.extent is not None:
            inner.extent += end
        return inner
    te = d.field('transfer-encoding')
    ce = d.field('content-encoding')        # (of the header section: a trailer describes nothing that was decided before it, RFC 7230 4.1.2)
    cl = d.field('content-length')
    conn = (d.field('connection') or '').lower()
    if d.version == 'HTTP/1.0':
        d.keep_alive = 'keep-alive' in conn
    else:
        d.keep_alive = 'close' not in conn
    # ---- framing
    if method.upper() == 'HEAD' or d.status in NO_BODY_CODES:
        d.framing = 'none'
        d.extent = end
        d.coded = b''
        d.complete = True
    elif te is not None and ([c.split(';')[0].strip().lower() for c in te.split(',') if c.strip()] or [''])[-1] == 'chunked':
        # (RFC 7230 section 7: a recipient MUST parse and ignore a reasonable number of empty list elements)
        d.framing = 'chunked'
        coded = bytearray()
        p = 0
        while True:
            i = body.find(b'\n', p)
            if i < 0:
                d.error = 'truncated-body'
                d.coded = bytes(coded)
                return d
            size_line = body[p:i + 1]
            try:
                size = int(size_line.split(b';', 1)[0].strip(), 16)
            except ValueError:
                d.error = 'bad-chunk-size'
                return d
            p = i + 1
            if size == 0:
                break
            if len(body) < p + size:
                coded += body[p:]
                d.error = 'truncated-body'
                d.coded = bytes(coded)
                return d
            coded += body[p:p + size]
            p += size
            # chunk terminator
            if body[p:p + 2] == b'\r\n':
                p += 2
            elif body[p:p + 1] == b'\n':
                p += 1
            elif len(body) <= p + 1 and (len(body) == p or body[p:p + 1] == b'\r'):
                d.error = 'truncated-body'
                d.coded = bytes(coded)
                return d
            else:
                d.error = 'bad-chunk-terminator'
                return d
        # trailers
        tl = []
        while True:
            i = body.find(b'\n', p)
            if i < 0:
                d.error = 'truncated-trailer'
                d.coded = bytes(coded)
                return d
            ln = body[p:i + 1]
            p = i + 1
            if ln in (b'\r\n', b'\n'):
                break
            tl.append(ln)
        d.fields += parse_field_lines(tl)
        d.coded = bytes(coded)
        d.extent = end + p
        d.complete = True
    elif te is not None:
        d.framing = 'close'
        d.coded = body
        d.complete = eof
        d.extent = len(wire) if eof else None
        if not eof:
            d.error = 'incomplete'
    elif cl is not None:
        if not re.fullmatch(r'\d+', cl.strip()):
            d.error = 'bad-content-length'
            return d
        n = int(cl)
        d.framing = 'length'
        if len(body) < n:
            d.coded = body
            d.error = 'truncated-body'
            return d
        d.coded = body[:n]
        d.extent = end + n
        d.complete = True
    else:
        d.framing = 'close'
        d.coded = body
        d.complete = eof
        d.extent = len(wire) if eof else None
        if not eof:
            d.error = 'incomplete'
    if d.complete:
        d.payload, d.payload_error = decode_content(d.coded, ce)
    return d
